package main

// Symbolic fronts for the arithmetic, comparison and conversion operators: when
// an operand is a *Term the operation builds a bit-vector term of the Go width
// (wrapping semantics); otherwise the concrete interp code runs.

import (
	"fmt"
	"go/token"
	"go/types"

	"golang.org/x/tools/go/ssa"
)

func (r *run) binop(op token.Token, t types.Type, x, y value) value {
	switch op {
	case token.EQL:
		return r.eqnil(t, x, y)
	case token.NEQ:
		return r.notv(r.eqnil(t, x, y))
	}
	if !isSym(x) && !isSym(y) {
		return binopConcrete(op, t, x, y)
	}
	tt := r.tt
	w, signed, ok := basicWidth(t)
	if !ok {
		panic(unsupported(fmt.Sprintf("symbolic binop %s on type %s", op, t)))
	}
	if w == 0 {
		// booleans: only AND/OR can reach here through BinOp? (Go lowers &&/|| to branches)
		a, b := r.toTerm(t, x), r.toTerm(t, y)
		switch op {
		case token.AND, token.LAND:
			return tt.And(a, b)
		case token.OR, token.LOR:
			return tt.Or(a, b)
		}
		panic(unsupported(fmt.Sprintf("symbolic bool binop %s", op)))
	}
	a := r.toTerm(t, x)
	var res *Term
	switch op {
	case token.SHL, token.SHR:
		// y has its own (unsigned or signed) integer type; bring it to width w
		var b *Term
		if yt, ok := y.(*Term); ok {
			b = tt.Resize(yt, w, false)
			if yt.w > w {
				// large shift counts must saturate: if any high bit set, count >= w
				hiSet := tt.Not(tt.Eq(tt.mk("extract", yt.w-w, "", 0, yt.w-1, w, yt), tt.Const(yt.w-w, 0)))
				b = tt.Ite(hiSet, tt.Const(w, uint64(w)), b)
			}
		} else {
			c := asUint64Any(y)
			if c > uint64(w) {
				c = uint64(w)
			}
			b = tt.Const(w, c)
		}
		switch {
		case op == token.SHL:
			res = tt.Bin("bvshl", a, b)
		case signed:
			res = tt.Bin("bvashr", a, b)
		default:
			res = tt.Bin("bvlshr", a, b)
		}
		return concretizeIfConst(t, res)
	}
	b := r.toTerm(t, y)
	switch op {
	case token.ADD:
		res = tt.Bin("bvadd", a, b)
	case token.SUB:
		res = tt.Bin("bvsub", a, b)
	case token.MUL:
		res = tt.Bin("bvmul", a, b)
	case token.QUO, token.REM:
		// division by zero panics in Go: fork on divisor == 0
		if r.truth(concretizeIfConst(types.Typ[types.Bool], tt.Eq(b, tt.Const(w, 0))), "divzero") {
			panic(runtimePanic("integer divide by zero"))
		}
		switch {
		case op == token.QUO && signed:
			res = tt.Bin("bvsdiv", a, b)
		case op == token.QUO:
			res = tt.Bin("bvudiv", a, b)
		case signed:
			res = tt.Bin("bvsrem", a, b)
		default:
			res = tt.Bin("bvurem", a, b)
		}
	case token.AND:
		res = tt.Bin("bvand", a, b)
	case token.OR:
		res = tt.Bin("bvor", a, b)
	case token.XOR:
		res = tt.Bin("bvxor", a, b)
	case token.AND_NOT:
		res = tt.Bin("bvand", a, tt.BvNot(b))
	case token.LSS, token.LEQ, token.GTR, token.GEQ:
		var c *Term
		lt, le := "bvult", "bvule"
		if signed {
			lt, le = "bvslt", "bvsle"
		}
		switch op {
		case token.LSS:
			c = tt.Cmp(lt, a, b)
		case token.LEQ:
			c = tt.Cmp(le, a, b)
		case token.GTR:
			c = tt.Cmp(lt, b, a)
		case token.GEQ:
			c = tt.Cmp(le, b, a)
		}
		return concretizeIfConst(types.Typ[types.Bool], c)
	default:
		panic(unsupported(fmt.Sprintf("symbolic binop %s", op)))
	}
	return concretizeIfConst(t, res)
}

func asUint64Any(x value) uint64 {
	switch x := x.(type) {
	case int:
		if x < 0 {
			panic(runtimePanic("negative shift amount"))
		}
		return uint64(x)
	case int8:
		if x < 0 {
			panic(runtimePanic("negative shift amount"))
		}
		return uint64(x)
	case int16:
		if x < 0 {
			panic(runtimePanic("negative shift amount"))
		}
		return uint64(x)
	case int32:
		if x < 0 {
			panic(runtimePanic("negative shift amount"))
		}
		return uint64(x)
	case int64:
		if x < 0 {
			panic(runtimePanic("negative shift amount"))
		}
		return uint64(x)
	}
	return asUint64(x)
}

func (r *run) unop(fr *frame, instr *ssa.UnOp, x value) value {
	switch instr.Op {
	case token.ARROW:
		v, ok := fr.t.chanRecv(x.(*chanObj), fr.pos(instr))
		if !ok {
			v = zero(instr.X.Type().Underlying().(*types.Chan).Elem())
		}
		if instr.CommaOk {
			return tuple{v, ok}
		}
		return v
	case token.MUL:
		p := x.(*value)
		if p == nil {
			panic(runtimePanic("invalid memory address or nil pointer dereference"))
		}
		r.access(fr, p, false, instr)
		return load(mustDeref(instr.X.Type()), p)
	}
	if xt, ok := x.(*Term); ok {
		t := instr.X.Type()
		switch instr.Op {
		case token.SUB:
			return concretizeIfConst(t, r.tt.Neg(xt))
		case token.NOT:
			return concretizeIfConst(t, r.tt.Not(xt))
		case token.XOR:
			return concretizeIfConst(t, r.tt.BvNot(xt))
		}
		panic(unsupported(fmt.Sprintf("symbolic unop %s", instr.Op)))
	}
	return unopConcrete(instr, x)
}

func (r *run) conv(tdst, tsrc types.Type, x value) value {
	xt, ok := x.(*Term)
	if !ok {
		return convConcrete(tdst, tsrc, x)
	}
	wd, _, okd := basicWidth(tdst)
	_, ss, oks := basicWidth(tsrc)
	if !okd || !oks || wd == 0 {
		// integer -> float / string etc. are outside the bit-vector encoding
		panic(unsupported(fmt.Sprintf("symbolic conversion %s -> %s", tsrc, tdst)))
	}
	return concretizeIfConst(tdst, r.tt.Resize(xt, wd, ss))
}

// slice returns x[lo:hi:max].  Any of lo, hi and max may be nil.
func (r *run) slice(x, lo, hi, max value) value {
	var Len, Cap int
	switch x := x.(type) {
	case string:
		Len = len(x)
		Cap = len(x)
	case []value:
		Len = len(x)
		Cap = cap(x)
	case *value: // *array
		if x == nil {
			panic(runtimePanic("invalid memory address or nil pointer dereference"))
		}
		a := (*x).(array)
		Len = len(a)
		Cap = cap(a)
	}
	l := int64(0)
	if lo != nil {
		l = r.concInt(lo, "slice-lo")
	}
	h := int64(Len)
	if hi != nil {
		h = r.concInt(hi, "slice-hi")
	}
	m := int64(Cap)
	if max != nil {
		m = r.concInt(max, "slice-max")
	}
	if _, isStr := x.(string); isStr {
		if l < 0 || h < l || h > int64(Len) {
			panic(runtimePanic(fmt.Sprintf("slice bounds out of range [%d:%d] with length %d", l, h, Len)))
		}
	} else if l < 0 || h < l || m < h || m > int64(Cap) {
		panic(runtimePanic(fmt.Sprintf("slice bounds out of range [%d:%d:%d] with capacity %d", l, h, m, Cap)))
	}
	switch x := x.(type) {
	case string:
		return x[l:h]
	case []value:
		if x == nil {
			return x
		}
		return x[l:h:m]
	case *value: // *array
		a := (*x).(array)
		return []value(a)[l:h:m]
	}
	panic(fmt.Sprintf("slice: unexpected X type: %T", x))
}

// truth decides a boolean value; symbolic conditions fork the path.
func (r *run) truth(v value, why string) bool {
	switch v := v.(type) {
	case bool:
		return v
	case *Term:
		if v.isConst() {
			return v.val != 0
		}
		return r.decideBool(v, why)
	}
	panic(fmt.Sprintf("truth: unexpected %T", v))
}

// concInt returns a concrete value for an integer that may be symbolic; a
// symbolic one is case-split over its feasible values (bounded).
func (r *run) concInt(v value, why string) int64 {
	if t, ok := v.(*Term); ok {
		if t.isConst() {
			return sext(t.val, t.w)
		}
		return r.decideValue(t, why)
	}
	return asInt64(v)
}
