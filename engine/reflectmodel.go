package main

// A model of the small part of package reflect that ro's untyped Pipe / PipeOp helpers use:
// ValueOf, Value.Type/Call/Interface, TypeOf, and on reflect.Type: Kind, NumIn, NumOut, In, Out,
// Implements, Elem, String.  A reflect.Value is represented by a structure whose first field holds
// the wrapped interface value; a reflect.Type by an interface value whose dynamic type is the real
// *reflect.rtype (so that method calls dispatch as usual) and whose payload is the go/types type.
// Questions about types are answered by go/types (which is what the compiler's run-time type
// descriptors encode).  Everything else in package reflect stays without a model and aborts the
// path as "unsupported" if reached.

import (
	"go/types"
)

type rtypeVal struct{ t types.Type }

func (i *interpreter) rtypePtr() types.Type {
	pkg := i.prog.ImportedPackage("reflect")
	if pkg == nil {
		panic(unsupported("package reflect is not loaded"))
	}
	return types.NewPointer(pkg.Type("rtype").Type())
}

func (i *interpreter) mkRType(t types.Type) value {
	if t == nil {
		return iface{}
	}
	return iface{t: i.rtypePtr(), v: rtypeVal{t}}
}

func rtypeOf(v value) types.Type {
	switch v := v.(type) {
	case iface:
		if rv, ok := v.v.(rtypeVal); ok {
			return rv.t
		}
	case rtypeVal:
		return v.t
	}
	panic(unsupported("reflect.Type of unknown representation"))
}

func reflectKind(t types.Type) int {
	switch u := t.Underlying().(type) {
	case *types.Basic:
		switch u.Kind() {
		case types.Bool:
			return 1
		case types.Int:
			return 2
		case types.Int8:
			return 3
		case types.Int16:
			return 4
		case types.Int32:
			return 5
		case types.Int64:
			return 6
		case types.Uint:
			return 7
		case types.Uint8:
			return 8
		case types.Uint16:
			return 9
		case types.Uint32:
			return 10
		case types.Uint64:
			return 11
		case types.Uintptr:
			return 12
		case types.Float32:
			return 13
		case types.Float64:
			return 14
		case types.Complex64:
			return 15
		case types.Complex128:
			return 16
		case types.String:
			return 24
		case types.UnsafePointer:
			return 26
		}
	case *types.Array:
		return 17
	case *types.Chan:
		return 18
	case *types.Signature:
		return 19
	case *types.Interface:
		return 20
	case *types.Map:
		return 21
	case *types.Pointer:
		return 22
	case *types.Slice:
		return 23
	case *types.Struct:
		return 25
	}
	return 0
}

func (i *interpreter) registerReflectModels() {
	valueOf := func(x value) value { return structure{x, nil, uintptr(0)} }
	unwrap := func(v value) iface {
		st, ok := v.(structure)
		if !ok || len(st) == 0 {
			panic(unsupported("reflect.Value of unknown representation"))
		}
		x, _ := st[0].(iface)
		return x
	}
	i.addModel("reflect.ValueOf", "wraps the interface value", func(fr *frame, a []value) value {
		return valueOf(a[0])
	})
	i.addModel("reflect.TypeOf", "dynamic type of the interface value, from go/types", func(fr *frame, a []value) value {
		x, _ := a[0].(iface)
		return fr.i.mkRType(x.t)
	})
	i.addModel("(reflect.Value).Type", "dynamic type of the wrapped value", func(fr *frame, a []value) value {
		x := unwrap(a[0])
		if x.t == nil {
			panic(targetPanic{fr.t.r.errorValue("reflect: call of reflect.Value.Type on zero Value")})
		}
		return fr.i.mkRType(x.t)
	})
	i.addModel("(reflect.Value).Interface", "the wrapped interface value", func(fr *frame, a []value) value {
		return unwrap(a[0])
	})
	i.addModel("(reflect.Value).Call", "calls the wrapped function with the wrapped arguments", func(fr *frame, a []value) value {
		fn := unwrap(a[0])
		sig, ok := fn.t.Underlying().(*types.Signature)
		if !ok {
			panic(targetPanic{fr.t.r.errorValue("reflect: call of non-function")})
		}
		in, _ := a[1].([]value)
		if len(in) != sig.Params().Len() {
			panic(targetPanic{fr.t.r.errorValue("reflect: Call with wrong number of input arguments")})
		}
		var args []value
		for k, v := range in {
			x := unwrap(v)
			if _, isIface := sig.Params().At(k).Type().Underlying().(*types.Interface); isIface {
				args = append(args, x)
			} else {
				args = append(args, x.v)
			}
		}
		res := call(fr.i, fr, 0, fn.v, args)
		var outs []value
		wrapRes := func(t types.Type, v value) value {
			if _, isIface := t.Underlying().(*types.Interface); isIface {
				x, _ := v.(iface)
				return valueOf(x)
			}
			return valueOf(iface{t: t, v: v})
		}
		switch sig.Results().Len() {
		case 0:
		case 1:
			outs = append(outs, wrapRes(sig.Results().At(0).Type(), res))
		default:
			tup := res.(tuple)
			for k := range tup {
				outs = append(outs, wrapRes(sig.Results().At(k).Type(), tup[k]))
			}
		}
		return outs
	})
	i.addModel("(*reflect.rtype).Kind", "kind from go/types", func(fr *frame, a []value) value {
		return uint(reflectKind(rtypeOf(a[0])))
	})
	i.addModel("(*reflect.rtype).String", "type name from go/types", func(fr *frame, a []value) value {
		return rtypeOf(a[0]).String()
	})
	sigOf := func(fr *frame, v value) *types.Signature {
		sig, ok := rtypeOf(v).Underlying().(*types.Signature)
		if !ok {
			panic(targetPanic{fr.t.r.errorValue("reflect: NumIn/NumOut/In/Out of non-func type")})
		}
		return sig
	}
	i.addModel("(*reflect.rtype).NumIn", "from go/types", func(fr *frame, a []value) value { return sigOf(fr, a[0]).Params().Len() })
	i.addModel("(*reflect.rtype).NumOut", "from go/types", func(fr *frame, a []value) value { return sigOf(fr, a[0]).Results().Len() })
	i.addModel("(*reflect.rtype).In", "from go/types", func(fr *frame, a []value) value {
		return fr.i.mkRType(sigOf(fr, a[0]).Params().At(a[1].(int)).Type())
	})
	i.addModel("(*reflect.rtype).Out", "from go/types", func(fr *frame, a []value) value {
		return fr.i.mkRType(sigOf(fr, a[0]).Results().At(a[1].(int)).Type())
	})
	i.addModel("(*reflect.rtype).Elem", "from go/types", func(fr *frame, a []value) value {
		switch u := rtypeOf(a[0]).Underlying().(type) {
		case *types.Pointer:
			return fr.i.mkRType(u.Elem())
		case *types.Slice:
			return fr.i.mkRType(u.Elem())
		case *types.Array:
			return fr.i.mkRType(u.Elem())
		case *types.Chan:
			return fr.i.mkRType(u.Elem())
		case *types.Map:
			return fr.i.mkRType(u.Elem())
		}
		panic(targetPanic{fr.t.r.errorValue("reflect: Elem of invalid type")})
	})
	i.addModel("(*reflect.rtype).Implements", "types.Implements", func(fr *frame, a []value) value {
		u := rtypeOf(a[1])
		it, ok := u.Underlying().(*types.Interface)
		if !ok {
			panic(targetPanic{fr.t.r.errorValue("reflect: non-interface type passed to Type.Implements")})
		}
		return types.Implements(rtypeOf(a[0]), it)
	})
}
