package main

// One path execution ("run") and the decision-prefix exploration around it.

import (
	"fmt"
	"go/token"
	"sort"
	"strings"
	"sync"
	"sync/atomic"

	"golang.org/x/tools/go/ssa"
)

type outcomeKind int

const (
	outcomeOK          outcomeKind = iota // harness returned
	outcomeAssumeFalse                    // dropped by vAssume
	outcomeViolation                      // assertion failed / crash / deadlock / race
	outcomeUnsupported
	outcomeUnwind
	outcomeUnknown // solver unknown / error
	outcomeBug     // engine bug
)

func (k outcomeKind) String() string {
	return [...]string{"ok", "assume-false", "violation", "unsupported", "unwind", "solver-unknown", "engine-bug"}[k]
}

type decision struct {
	v    int64
	kind string
}

type traceEvent struct {
	Tag    string   `json:"tag"`
	Thread int      `json:"thread"`
	Vals   []*Term  `json:"-"`
	Conc   []int64  `json:"vals"`
	Strs   []string `json:"strs,omitempty"`
}

type ufApp struct {
	name string
	args []*Term
	res  *Term
}

type inputVar struct {
	name string
	kind string // int64, bool, choice
	t    *Term  // nil for choice (decision)
	cval int64  // for choice
}

type violation struct {
	Kind    string `json:"kind"` // assert, panic, deadlock, race, crash
	Msg     string `json:"msg"`
	Site    string `json:"site"`
	Harness string `json:"harness"`
}

type run struct {
	i  *interpreter
	ex *explorer
	tt *TermTable
	sv *Solver

	globals     map[*ssa.Global]*value
	globalCells map[*value]*ssa.Global

	pc    []*Term
	pcset map[*Term]bool

	prefix    []int64
	decisions []decision

	threads     []*thread
	cur         *thread
	preemptions int
	kill        chan struct{}
	killOnce    sync.Once
	wg          sync.WaitGroup

	outcome     outcomeKind
	outcomeMsg  string
	viol        *violation
	steps       int64
	inputs      []*inputVar
	inputByName map[string]int
	ufapps      []*ufApp
	trace       []traceEvent
	reached     map[string]bool
	nameCount   map[string]int
	opaqueN     int
	chanN       int

	// time
	now    *Term // BV64 nanoseconds
	timers []*timer
	timerN int

	// races
	trackRaces   bool
	cellMeta     map[*value]*cellMeta
	harnessCells map[*value]bool
	atomicCells  map[*value]*syncMeta
	syncObjs     map[*value]*syncMeta
	chanLocal    map[*chanObj]bool

	sideTables   map[interface{}]interface{}
	fnSeen       map[*ssa.Function]bool
	schedLog     []int
	switches     []switchEv
	hooks        map[string]value
	maxPreempt   int
	mapRangeMode int
}

func (r *run) noteFn(fn *ssa.Function) {
	if !r.fnSeen[fn] {
		r.fnSeen[fn] = true
	}
}

// abort ends the current path with the given outcome; never returns.
func (r *run) abort(k outcomeKind, msg string) {
	if r.outcome == outcomeOK && r.outcomeMsg == "" {
		r.outcome = k
		r.outcomeMsg = msg
	}
	r.killOnce.Do(func() { close(r.kill) })
	panic(pathAbort{})
}

func (r *run) addPC(c *Term) {
	if c.isTrue() || r.pcset[c] {
		return
	}
	r.pcset[c] = true
	r.pc = append(r.pc, c)
}

// termVars returns the set of variable/UF names in t (memoised per table).
func (r *run) termVars(t *Term, acc map[string]bool, seen map[*Term]bool) {
	if seen[t] {
		return
	}
	seen[t] = true
	switch t.op {
	case "var":
		acc[t.name] = true
	case "uf":
		acc["uf:"+t.name] = true
	}
	for _, a := range t.args {
		r.termVars(a, acc, seen)
	}
}

// relevantPC returns the path-condition conjuncts that share variables
// (transitively) with cond — KLEE's constraint independence.
func (r *run) relevantPC(cond *Term) []*Term {
	want := map[string]bool{}
	r.termVars(cond, want, map[*Term]bool{})
	type ent struct {
		t    *Term
		vars map[string]bool
		in   bool
	}
	ents := make([]*ent, len(r.pc))
	for i, c := range r.pc {
		v := map[string]bool{}
		r.termVars(c, v, map[*Term]bool{})
		ents[i] = &ent{t: c, vars: v}
	}
	changed := true
	for changed {
		changed = false
		for _, e := range ents {
			if e.in {
				continue
			}
			for v := range e.vars {
				if want[v] {
					e.in = true
					for v2 := range e.vars {
						want[v2] = true
					}
					changed = true
					break
				}
			}
		}
	}
	var out []*Term
	for _, e := range ents {
		if e.in {
			out = append(out, e.t)
		}
	}
	return out
}

// feasible asks the solver whether PC ∧ cond is satisfiable.
func (r *run) feasible(cond *Term) bool {
	if cond.isTrue() {
		return true
	}
	if cond.isFalse() {
		return false
	}
	if r.pcset[cond] {
		return true
	}
	if r.pcset[r.tt.Not(cond)] {
		return false
	}
	asserts := append(r.relevantPC(cond), cond)
	res := r.check(asserts)
	return res == resSat
}

func (r *run) check(asserts []*Term) satResult {
	key := buildQuery(r.tt, asserts, nil)
	if v, ok := r.ex.cache.Load(key); ok {
		atomic.AddInt64(&gStats.cacheHits, 1)
		return v.(satResult)
	}
	res, _, err := r.sv.Check(r.tt, asserts, nil)
	if err != nil || res == resUnknown {
		msg := "solver returned unknown"
		if err != nil {
			msg = err.Error()
		}
		r.abort(outcomeUnknown, msg)
	}
	r.ex.cache.Store(key, res)
	r.ex.xcheck(r, asserts, res)
	return res
}

// nextDecision returns the replayed decision if inside the prefix.
func (r *run) replayed() (int64, bool) {
	if len(r.decisions) < len(r.prefix) {
		return r.prefix[len(r.decisions)], true
	}
	return 0, false
}

func (r *run) record(v int64, kind string) {
	r.decisions = append(r.decisions, decision{v, kind})
}

func (r *run) fork(alt int64, kind string) {
	p := make([]int64, len(r.decisions)+1)
	for i, d := range r.decisions {
		p[i] = d.v
	}
	p[len(r.decisions)] = alt
	r.ex.enqueue(p)
}

// decide makes an n-way choice that needs no solver (vChoice, scheduling).
func (r *run) decide(kind string, n int) int {
	if n <= 1 {
		return 0
	}
	if v, ok := r.replayed(); ok {
		r.record(v, kind)
		return int(v)
	}
	for i := 1; i < n; i++ {
		r.fork(int64(i), kind)
	}
	r.record(0, kind)
	return 0
}

// decideBool forks on a symbolic condition.
func (r *run) decideBool(c *Term, why string) bool {
	if r.pcset[c] {
		return true
	}
	if nc := r.tt.Not(c); r.pcset[nc] {
		return false
	}
	if v, ok := r.replayed(); ok {
		r.record(v, why)
		if v == 1 {
			r.addPC(c)
			return true
		}
		r.addPC(r.tt.Not(c))
		return false
	}
	atomic.AddInt64(&r.ex.stats.branchPoints, 1)
	ft := r.feasible(c)
	ff := true
	if ft {
		ff = r.feasible(r.tt.Not(c))
	}
	switch {
	case ft && ff:
		r.fork(0, why)
		r.record(1, why)
		r.addPC(c)
		return true
	case ft:
		r.record(1, why)
		r.addPC(c)
		return true
	default:
		r.record(0, why)
		r.addPC(r.tt.Not(c))
		return false
	}
}

const maxSplit = 12

// decideValue case-splits a symbolic integer over its feasible values.
func (r *run) decideValue(t *Term, why string) int64 {
	if v, ok := r.replayed(); ok {
		r.record(v, why)
		r.addPC(r.tt.Eq(t, r.tt.Const(t.w, uint64(v))))
		return v
	}
	atomic.AddInt64(&r.ex.stats.splitPoints, 1)
	// enumerate feasible values
	var vals []int64
	asserts := r.relevantPC(t)
	var block []*Term
	for {
		q := append(append([]*Term{}, asserts...), block...)
		res, gv, err := r.sv.Check(r.tt, q, []*Term{t})
		if err != nil || res == resUnknown {
			msg := "solver unknown in value split"
			if err != nil {
				msg = err.Error()
			}
			r.abort(outcomeUnknown, msg)
		}
		if res == resUnsat {
			break
		}
		v := sext(gv[0], t.w)
		vals = append(vals, v)
		block = append(block, r.tt.Not(r.tt.Eq(t, r.tt.Const(t.w, gv[0]))))
		if len(vals) > maxSplit {
			r.abort(outcomeUnwind, fmt.Sprintf("symbolic %s has more than %d feasible values (%s); the harness must bound it", why, maxSplit, t))
		}
	}
	if len(vals) == 0 {
		r.abort(outcomeBug, "value split: path condition infeasible")
	}
	sort.Slice(vals, func(i, j int) bool { return vals[i] < vals[j] })
	for _, v := range vals[1:] {
		r.fork(v, why)
	}
	r.record(vals[0], why)
	r.addPC(r.tt.Eq(t, r.tt.Const(t.w, uint64(vals[0]))))
	return vals[0]
}

// ---------------------------------------------------------------------------

type exploreStats struct {
	paths        int64
	pathsOK      int64
	assumeFalse  int64
	unfair       int64 // schedules dropped because a Gosched spin was never relieved although another thread could run
	branchPoints int64
	splitPoints  int64
	instrs       int64
	maxDecisions int64
	schedPoints  int64
}

type explorer struct {
	i          *interpreter
	harness    *ssa.Function
	name       string
	maxSteps   int64
	maxPaths   int64
	maxDepth   int
	maxPreempt int
	trackRaces bool

	mu       sync.Mutex
	queue    [][]int64
	inflight int
	cond     *sync.Cond
	cache    sync.Map

	stats        exploreStats
	results      []*pathResult // violations & inconclusives
	okSamples    []*pathResult
	reachedEnd   int64
	fnSeen       map[string]bool
	stop         bool
	xsolvers     []*Solver
	xmu          sync.Mutex
	xrate        int
	xcount       int64
	modelsWanted int
	msgCount     map[string]int
}

type pathResult struct {
	Harness   string              `json:"harness"`
	Outcome   string              `json:"outcome"`
	Msg       string              `json:"msg,omitempty"`
	Viol      *violation          `json:"violation,omitempty"`
	Decisions []int64             `json:"decisions"`
	Kinds     []string            `json:"decision_kinds,omitempty"`
	Inputs    map[string]int64    `json:"inputs,omitempty"`
	UF        map[string][]ufRow  `json:"uf,omitempty"`
	Trace     []traceEvent        `json:"trace,omitempty"`
	Sched     []int               `json:"sched,omitempty"`
	Switches  []switchEv          `json:"switches,omitempty"`
	Threads   []string            `json:"threads,omitempty"`
	Reached   []string            `json:"reached,omitempty"`
	Steps     int64               `json:"steps"`
	LSites    map[string][]string `json:"lsites,omitempty"`
	key       string
	score     int
}

// schedScore ranks a schedule: preemptions first, then length.
func schedScore(sw []switchEv) int {
	s := len(sw)
	for _, e := range sw {
		if e.Reason == "lpreempt" || e.Reason == "cpreempt" {
			s += 1000
		}
	}
	return s
}

type ufRow struct {
	Args []int64 `json:"args"`
	Res  int64   `json:"res"`
}

func (ex *explorer) enqueue(p []int64) {
	ex.mu.Lock()
	ex.queue = append(ex.queue, p)
	ex.mu.Unlock()
	ex.cond.Signal()
}

func (ex *explorer) take() ([]int64, bool) {
	ex.mu.Lock()
	defer ex.mu.Unlock()
	for {
		if ex.stop {
			return nil, false
		}
		if n := len(ex.queue); n > 0 {
			p := ex.queue[n-1] // LIFO = DFS
			ex.queue = ex.queue[:n-1]
			ex.inflight++
			return p, true
		}
		if ex.inflight == 0 {
			ex.cond.Broadcast()
			return nil, false
		}
		ex.cond.Wait()
	}
}

func (ex *explorer) done() {
	ex.mu.Lock()
	ex.inflight--
	if ex.inflight == 0 && len(ex.queue) == 0 {
		ex.cond.Broadcast()
	}
	ex.mu.Unlock()
}

// explore runs the harness over all decision prefixes with nworkers workers.
func (ex *explorer) explore(nworkers int, solverKind string, timeoutMs int) error {
	ex.cond = sync.NewCond(&ex.mu)
	ex.queue = [][]int64{{}}
	ex.fnSeen = map[string]bool{}
	var wg sync.WaitGroup
	errs := make(chan error, nworkers)
	for w := 0; w < nworkers; w++ {
		wg.Add(1)
		go func() {
			defer wg.Done()
			sv, err := startSolver(solverKind, timeoutMs)
			if err != nil {
				errs <- err
				return
			}
			defer sv.Close()
			for {
				p, ok := ex.take()
				if !ok {
					return
				}
				ex.runPath(p, sv)
				ex.done()
			}
		}()
	}
	wg.Wait()
	select {
	case err := <-errs:
		return err
	default:
	}
	return nil
}

func (ex *explorer) newRun(prefix []int64, sv *Solver) *run {
	r := &run{
		i: ex.i, ex: ex, tt: newTermTable(), sv: sv,
		globals:      map[*ssa.Global]*value{},
		globalCells:  map[*value]*ssa.Global{},
		pcset:        map[*Term]bool{},
		prefix:       prefix,
		kill:         make(chan struct{}),
		inputByName:  map[string]int{},
		reached:      map[string]bool{},
		nameCount:    map[string]int{},
		trackRaces:   ex.trackRaces,
		cellMeta:     map[*value]*cellMeta{},
		harnessCells: map[*value]bool{},
		atomicCells:  map[*value]*syncMeta{},
		syncObjs:     map[*value]*syncMeta{},
		sideTables:   map[interface{}]interface{}{},
		fnSeen:       map[*ssa.Function]bool{},
		hooks:        map[string]value{},
		maxPreempt:   ex.maxPreempt,
	}
	r.now = r.tt.Const(64, 0)
	return r
}

func (ex *explorer) runPath(prefix []int64, sv *Solver) {
	r := ex.newRun(prefix, sv)
	t0 := r.newThread(nil, false, "harness")
	r.cur = t0
	r.wg.Add(1)
	go t0.main(func(fr *frame) {
		for _, init := range r.i.initFns {
			call(r.i, fr, token.NoPos, init, nil)
		}
		call(r.i, fr, token.NoPos, ex.harness, nil)
	})
	t0.resume <- struct{}{}
	r.wg.Wait()

	n := atomic.AddInt64(&ex.stats.paths, 1)
	atomic.AddInt64(&ex.stats.instrs, r.steps)
	if int64(len(r.decisions)) > atomic.LoadInt64(&ex.stats.maxDecisions) {
		atomic.StoreInt64(&ex.stats.maxDecisions, int64(len(r.decisions)))
	}
	ex.mu.Lock()
	for fn := range r.fnSeen {
		ex.fnSeen[fn.String()] = true
	}
	ex.mu.Unlock()
	switch r.outcome {
	case outcomeOK:
		atomic.AddInt64(&ex.stats.pathsOK, 1)
		if r.reached["end"] {
			atomic.AddInt64(&ex.reachedEnd, 1)
		}
		ex.mu.Lock()
		want := len(ex.okSamples) < ex.modelsWanted
		ex.mu.Unlock()
		if want {
			if pr := r.result(true); pr != nil {
				ex.mu.Lock()
				ex.okSamples = append(ex.okSamples, pr)
				ex.mu.Unlock()
			}
		}
	case outcomeAssumeFalse:
		atomic.AddInt64(&ex.stats.assumeFalse, 1)
	default:
		key := r.outcome.String() + "|" + r.outcomeMsg
		if r.viol != nil {
			key = r.viol.Kind + "|" + normViolMsg(r.viol.Kind, r.viol.Msg)
		}
		ex.mu.Lock()
		if ex.msgCount == nil {
			ex.msgCount = map[string]int{}
		}
		ex.msgCount[key]++
		// up to 6 counterexamples per distinct message; once there are 6, a new one replaces the
		// kept one with the most preemptions if it needs fewer (schedules with few or no
		// preemptions are the ones the native replay reproduces most reliably)
		score := schedScore(r.switches)
		keep := ex.msgCount[key] <= 6
		replace := -1
		if !keep && r.outcome == outcomeViolation {
			worst := -1
			for i, pr := range ex.results {
				if pr.key == key && (worst < 0 || pr.score > ex.results[worst].score) {
					worst = i
				}
			}
			if worst >= 0 && ex.results[worst].score > score {
				replace = worst
			}
		}
		ex.mu.Unlock()
		if keep || replace >= 0 {
			pr := r.result(r.outcome == outcomeViolation)
			pr.key, pr.score = key, score
			ex.mu.Lock()
			if keep {
				ex.results = append(ex.results, pr)
			} else if replace < len(ex.results) && ex.results[replace].key == key && ex.results[replace].score > score {
				ex.results[replace] = pr
			}
			if len(ex.results) >= 300 {
				ex.stop = true
				ex.cond.Broadcast()
			}
			ex.mu.Unlock()
		}
	}
	if n >= ex.maxPaths {
		ex.mu.Lock()
		if !ex.stop {
			ex.stop = true
			ex.results = append(ex.results, &pathResult{Harness: ex.name, Outcome: outcomeUnwind.String(), Msg: fmt.Sprintf("path budget %d exhausted", ex.maxPaths)})
			ex.cond.Broadcast()
		}
		ex.mu.Unlock()
	}
}

// result builds the serialisable description of the finished path, including a
// model of the path condition when withModel.
func (r *run) result(withModel bool) *pathResult {
	pr := &pathResult{Harness: r.ex.name, Outcome: r.outcome.String(), Msg: r.outcomeMsg, Viol: r.viol, Steps: r.steps, Sched: r.schedLog, Switches: r.switches}
	for _, t := range r.threads {
		k := "harness:"
		if t.lib {
			k = "lib:"
		}
		pr.Threads = append(pr.Threads, k+t.origin)
		if r.outcome == outcomeViolation && len(t.lsites) > 0 {
			if pr.LSites == nil {
				pr.LSites = map[string][]string{}
			}
			pr.LSites[fmt.Sprint(t.id)] = t.lsites
		}
	}
	for _, d := range r.decisions {
		pr.Decisions = append(pr.Decisions, d.v)
		pr.Kinds = append(pr.Kinds, d.kind)
	}
	for k := range r.reached {
		pr.Reached = append(pr.Reached, k)
	}
	sort.Strings(pr.Reached)
	if !withModel {
		return pr
	}
	// gather terms to evaluate: inputs, uf apps (args+res), trace values
	var gv []*Term
	for _, in := range r.inputs {
		if in.t != nil {
			gv = append(gv, in.t)
		}
	}
	for _, u := range r.ufapps {
		gv = append(gv, u.args...)
		gv = append(gv, u.res)
	}
	for _, ev := range r.trace {
		gv = append(gv, ev.Vals...)
	}
	var vals []uint64
	if len(gv) > 0 {
		res, v, err := r.sv.Check(r.tt, r.pc, gv)
		if err != nil || res != resSat {
			pr.Msg += fmt.Sprintf(" [model extraction failed: %v %v]", res, err)
			return pr
		}
		vals = v
	}
	k := 0
	pr.Inputs = map[string]int64{}
	for _, in := range r.inputs {
		if in.t != nil {
			pr.Inputs[in.name] = sext(vals[k], in.t.w)
			k++
		} else {
			pr.Inputs[in.name] = in.cval
		}
	}
	pr.UF = map[string][]ufRow{}
	for _, u := range r.ufapps {
		row := ufRow{}
		for _, a := range u.args {
			row.Args = append(row.Args, sext(vals[k], a.w))
			k++
		}
		row.Res = sext(vals[k], u.res.w)
		k++
		dup := false
		for _, e := range pr.UF[u.name] {
			if fmt.Sprint(e.Args) == fmt.Sprint(row.Args) {
				dup = true
			}
		}
		if !dup {
			pr.UF[u.name] = append(pr.UF[u.name], row)
		}
	}
	for _, ev := range r.trace {
		e := traceEvent{Tag: ev.Tag, Thread: ev.Thread, Strs: ev.Strs, Conc: []int64{}}
		for _, v := range ev.Vals {
			e.Conc = append(e.Conc, sext(vals[k], v.w))
			k++
		}
		pr.Trace = append(pr.Trace, e)
	}
	return pr
}

func (r *run) violate(kind, msg, site string) {
	if r.viol == nil {
		r.viol = &violation{Kind: kind, Msg: msg, Site: site, Harness: r.ex.name}
	}
	r.abort(outcomeViolation, kind+": "+msg)
}

func (ex *explorer) xcheck(r *run, asserts []*Term, got satResult) {
	if len(ex.xsolvers) == 0 {
		return
	}
	n := atomic.AddInt64(&ex.xcount, 1)
	if ex.xrate > 1 && n%int64(ex.xrate) != 0 {
		return
	}
	ex.xmu.Lock()
	defer ex.xmu.Unlock()
	for _, s := range ex.xsolvers {
		res, _, err := s.Check(r.tt, asserts, nil)
		atomic.AddInt64(&gStats.xchecked, 1)
		if err != nil || res == resUnknown {
			continue // the second solver may time out; only a definite disagreement counts
		}
		if res != got {
			atomic.AddInt64(&gStats.xdisagree, 1)
			r.abort(outcomeUnknown, fmt.Sprintf("solver disagreement: %s says %s, primary says %s", s.name, res, got))
		}
	}
}

func describeDecisions(ds []decision) string {
	var sb strings.Builder
	for i, d := range ds {
		if i > 0 {
			sb.WriteString(" ")
		}
		fmt.Fprintf(&sb, "%s=%d", d.kind, d.v)
	}
	return sb.String()
}

// normViolMsg strips thread numbers and other schedule-specific detail so that
// the same defect found on many paths is kept only a few times.
func normViolMsg(kind, msg string) string {
	switch kind {
	case "race", "deadlock", "crash":
		var sb strings.Builder
		digits := false
		for _, c := range msg {
			if c >= '0' && c <= '9' {
				if !digits {
					sb.WriteByte('#')
				}
				digits = true
				continue
			}
			digits = false
			sb.WriteRune(c)
		}
		return sb.String()
	}
	return msg
}
