package main

// Unspecified order of evaluation.  The Go specification orders function calls, method calls and
// communication operations within an expression, but leaves open when a plain variable operand
// is read relative to them: in  x.M(f())  or  g(x, f())  the variable x may be read before or
// after f() runs.  go/ssa reads it first; the gc compiler reads it last.  When f() changes x the
// two disagree.  The executor treats the read as a nondeterministic choice exactly when it
// matters: at a call whose operand is a variable load issued earlier in the same block with
// calls nested in the operand list in between, the variable is read again; if the value has
// changed the path forks ("evalorder": 0 = early read, 1 = late read).  Violations found on
// either branch are replayed natively, so only the order the real compiler uses is reported.

import (
	"go/token"
	"reflect"
	"sync"

	"golang.org/x/tools/go/ssa"
)

var lateLoadCache sync.Map // *ssa.Call -> []*ssa.UnOp

func lateLoads(c *ssa.Call) []*ssa.UnOp {
	if v, ok := lateLoadCache.Load(c); ok {
		return v.([]*ssa.UnOp)
	}
	var out []*ssa.UnOp
	b := c.Block()
	idx := map[ssa.Instruction]int{}
	for k, in := range b.Instrs {
		idx[in] = k
	}
	ci := idx[c]
	consider := func(v ssa.Value) {
		u, ok := v.(*ssa.UnOp)
		if !ok || u.Op != token.MUL || u.Block() != b {
			return
		}
		if refs := u.Referrers(); refs == nil || len(*refs) != 1 {
			return
		}
		switch u.X.(type) {
		case *ssa.FreeVar, *ssa.Global, *ssa.Alloc, *ssa.FieldAddr:
		default:
			return
		}
		ui, ok := idx[u]
		if !ok || ui > ci {
			return
		}
		// a call between the load and this call that is written inside this call's parentheses
		for k := ui + 1; k < ci; k++ {
			if in, ok := b.Instrs[k].(*ssa.Call); ok && in.Pos() > c.Pos() && c.Pos() != token.NoPos {
				out = append(out, u)
				return
			}
		}
	}
	consider(c.Call.Value)
	for _, a := range c.Call.Args {
		consider(a)
	}
	lateLoadCache.Store(c, out)
	return out
}

func sameValue(a, b value) (same bool) {
	defer func() {
		if recover() != nil {
			same = false
		}
	}()
	return reflect.DeepEqual(shallow(a), shallow(b))
}

// shallow maps a value to something comparable by identity for references and by content for
// scalars, interfaces and small aggregates.
func shallow(v value) interface{} {
	switch v := v.(type) {
	case iface:
		return [2]interface{}{v.t, shallow(v.v)}
	case structure:
		out := make([]interface{}, len(v))
		for i, e := range v {
			out[i] = shallow(e)
		}
		return out
	case array:
		out := make([]interface{}, len(v))
		for i, e := range v {
			out[i] = shallow(e)
		}
		return out
	case tuple:
		out := make([]interface{}, len(v))
		for i, e := range v {
			out[i] = shallow(e)
		}
		return out
	case *value, *Term, *closure, *chanObj, *ssa.Function:
		return v // identity (terms are hash-consed)
	}
	rv := reflect.ValueOf(v)
	if rv.IsValid() {
		switch rv.Kind() {
		case reflect.Map, reflect.Slice, reflect.Func, reflect.Ptr:
			return rv.Pointer()
		}
	}
	return v
}

// evalOrder re-reads the variable operands of c that gc would read after the nested calls.
func (r *run) evalOrder(fr *frame, c *ssa.Call) {
	for _, u := range lateLoads(c) {
		p, ok := fr.get(u.X).(*value)
		if !ok || p == nil {
			continue
		}
		early := fr.env[u]
		late := load(mustDeref(u.X.Type()), p)
		if sameValue(early, late) {
			continue
		}
		if r.decide("evalorder", 2) == 1 {
			r.access(fr, p, false, u)
			fr.env[u] = late
		}
	}
}
