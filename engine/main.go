package main

import (
	"encoding/json"
	"flag"
	"fmt"
	"go/types"
	"os"
	"path/filepath"
	"regexp"
	"sort"
	"strings"
	"sync"
	"sync/atomic"
	"time"

	"golang.org/x/tools/go/packages"
	"golang.org/x/tools/go/ssa"
	"golang.org/x/tools/go/ssa/ssautil"
)

type harnessReport struct {
	Name         string        `json:"name"`
	Paths        int64         `json:"paths"`
	PathsOK      int64         `json:"paths_ok"`
	ReachedEnd   int64         `json:"reached_end"`
	AssumeFalse  int64         `json:"assume_false"`
	Unfair       int64         `json:"unfair_pruned"`
	BranchPoints int64         `json:"branch_points"`
	SplitPoints  int64         `json:"split_points"`
	SchedPoints  int64         `json:"sched_points"`
	Instrs       int64         `json:"instrs"`
	MaxDecisions int64         `json:"max_decisions"`
	Results      []*pathResult `json:"results"`
	OKSamples    []*pathResult `json:"ok_samples"`
	Functions    []string      `json:"functions"`
	WallS        float64       `json:"wall_s"`
	Exhaustive   bool          `json:"exhaustive"`
}

type report struct {
	Pkg        string            `json:"pkg"`
	Harnesses  []*harnessReport  `json:"harnesses"`
	Solver     map[string]int64  `json:"solver"`
	SolverS    float64           `json:"solver_s"`
	LoadS      float64           `json:"load_s"`
	WallS      float64           `json:"wall_s"`
	Models     map[string]string `json:"models_in_force"`
	Bounds     map[string]int64  `json:"bounds"`
	LoadErrors []string          `json:"load_errors,omitempty"`
}

func main() {
	var (
		dir       = flag.String("dir", "/repo", "module/package directory to load from")
		pkgPath   = flag.String("pkg", ".", "package pattern relative to dir")
		overlayD  = flag.String("overlay", "", "directory with harness files to overlay into the package directory")
		overlayJ  = flag.String("overlayjson", "", "JSON file {\"Replace\": {virtual path: real file}} with further overlay entries (stub packages, rewritten sources)")
		pattern   = flag.String("harness", "^vh", "regexp selecting harness functions")
		workers   = flag.Int("workers", 16, "parallel workers")
		preempt   = flag.Int("preempt", 0, "preemption bound")
		maxSteps  = flag.Int64("maxsteps", 400000, "instruction budget per path")
		maxPaths  = flag.Int64("maxpaths", 200000, "path budget per harness")
		maxDepth  = flag.Int("maxdepth", 400, "call depth budget")
		out       = flag.String("out", "", "write JSON report here")
		solver    = flag.String("solver", "z3", "primary solver: z3, z3-new, cvc5")
		xcheck    = flag.String("xcheck", "", "comma-separated cross-check solvers")
		xrate     = flag.Int("xrate", 20, "cross-check every n-th query")
		timeoutMs = flag.Int("timeout", 10000, "per-query solver timeout (ms)")
		gowork    = flag.String("gowork", "", "GOWORK file to use for loading")
		races     = flag.Bool("races", false, "track happens-before and report data races")
		samples   = flag.Int("samples", 3, "OK paths per harness for which a model is extracted")
		extraInit = flag.String("init", "", "comma-separated extra package paths whose init is executed")
		prefix    = flag.String("hprefix", "zz_verif", "file-name prefix of harness files")
		list      = flag.Bool("list", false, "list harness functions and exit")
		tags      = flag.String("tags", "", "build tags for loading")
	)
	flag.Parse()
	t0 := time.Now()

	overlay := map[string][]byte{}
	absDir, _ := filepath.Abs(*dir)
	pkgDir := absDir
	if *pkgPath != "." {
		pkgDir = filepath.Join(absDir, *pkgPath)
	}
	if *overlayD != "" {
		ents, err := os.ReadDir(*overlayD)
		if err != nil {
			fatal(err)
		}
		for _, e := range ents {
			if strings.HasSuffix(e.Name(), ".go") {
				b, err := os.ReadFile(filepath.Join(*overlayD, e.Name()))
				if err != nil {
					fatal(err)
				}
				overlay[filepath.Join(pkgDir, e.Name())] = b
			}
		}
	}
	if *overlayJ != "" {
		b, err := os.ReadFile(*overlayJ)
		if err != nil {
			fatal(err)
		}
		var oj struct{ Replace map[string]string }
		if err := json.Unmarshal(b, &oj); err != nil {
			fatal(err)
		}
		for virt, real := range oj.Replace {
			c, err := os.ReadFile(real)
			if err != nil {
				fatal(err)
			}
			overlay[virt] = c
		}
	}
	env := append(os.Environ(), "GOFLAGS=", "GOPROXY=off", "GOSUMDB=off", "GOTOOLCHAIN=local")
	if *gowork != "" {
		env = append(env, "GOWORK="+*gowork)
	}
	cfg := &packages.Config{
		Mode:    packages.LoadAllSyntax,
		Dir:     pkgDir,
		Env:     env,
		Overlay: overlay,
	}
	if *tags != "" {
		cfg.BuildFlags = []string{"-tags=" + *tags}
	}
	pkgs, err := packages.Load(cfg, ".")
	if err != nil {
		fatal(err)
	}
	var loadErrs []string
	packages.Visit(pkgs, nil, func(p *packages.Package) {
		for _, e := range p.Errors {
			loadErrs = append(loadErrs, e.Error())
		}
	})
	if len(loadErrs) > 0 {
		for _, e := range loadErrs {
			fmt.Fprintln(os.Stderr, "load error:", e)
		}
		fmt.Println("RESULT load-error")
		os.Exit(3)
	}
	prog, spkgs := ssautil.AllPackages(pkgs, ssa.InstantiateGenerics|ssa.BareInits)
	prog.Build()
	main := spkgs[0]
	loadS := time.Since(t0).Seconds()

	i := &interpreter{
		prog:              prog,
		models:            map[string]modelFn{},
		initedPkgs:        map[*ssa.Package]bool{},
		harnessFilePrefix: *prefix,
		fset:              prog.Fset,
	}
	rt := prog.ImportedPackage("runtime")
	if rt == nil {
		fatal(fmt.Errorf("runtime package not loaded"))
	}
	i.runtimeErrorString = rt.Type("errorString").Object().Type()
	gRuntimeErrorString = i.runtimeErrorString
	i.harnessPkgPath = main.Pkg.Path()
	i.registerModels(main.Pkg.Path())
	i.registerTimeModels()
	i.registerReflectModels()
	i.registerExtraModels()

	// packages whose init runs on every path: the package under test and its
	// samber/ro dependencies, context, plus -init extras; dependency order.
	wantInit := map[string]bool{"context": true, "io": true}
	for _, p := range strings.Split(*extraInit, ",") {
		if p != "" {
			wantInit[p] = true
		}
	}
	seen := map[*types.Package]bool{}
	var visit func(p *types.Package)
	visit = func(p *types.Package) {
		if seen[p] {
			return
		}
		seen[p] = true
		imps := p.Imports()
		sort.Slice(imps, func(a, b int) bool { return imps[a].Path() < imps[b].Path() })
		for _, q := range imps {
			visit(q)
		}
		roPkg := strings.HasPrefix(p.Path(), "github.com/samber/ro") &&
			!strings.Contains(p.Path(), "/ee/pkg/") && !strings.Contains(p.Path(), "/ee/internal/")
		if roPkg || wantInit[p.Path()] {
			if sp := prog.Package(p); sp != nil {
				if f := sp.Func("init"); f != nil {
					i.initFns = append(i.initFns, f)
					i.initedPkgs[sp] = true
				}
			}
		}
	}
	visit(main.Pkg)

	re := regexp.MustCompile(*pattern)
	var hs []*ssa.Function
	var names []string
	for n, m := range main.Members {
		if f, ok := m.(*ssa.Function); ok && strings.HasPrefix(n, "vh") && re.MatchString(n) {
			names = append(names, n)
			_ = f
		}
	}
	sort.Strings(names)
	for _, n := range names {
		hs = append(hs, main.Func(n))
	}
	if *list {
		for _, n := range names {
			fmt.Println(n)
		}
		return
	}
	if len(hs) == 0 {
		fatal(fmt.Errorf("no harness matches %q", *pattern))
	}

	rep := &report{Pkg: main.Pkg.Path(), LoadS: loadS, Models: map[string]string{},
		Bounds: map[string]int64{"preemptions": int64(*preempt), "max_steps_per_path": *maxSteps, "max_paths_per_harness": *maxPaths, "max_value_split": maxSplit, "solver_timeout_ms": int64(*timeoutMs)}}

	var xs []*Solver
	for _, k := range strings.Split(*xcheck, ",") {
		if k == "" {
			continue
		}
		s, err := startSolver(k, *timeoutMs)
		if err != nil {
			fatal(err)
		}
		xs = append(xs, s)
	}

	// harness-level parallelism: split workers across harnesses
	perH := *workers / len(hs)
	if perH < 1 {
		perH = 1
	}
	conc := *workers / perH
	if conc < 1 {
		conc = 1
	}
	sem := make(chan struct{}, conc)
	var wg sync.WaitGroup
	var mu sync.Mutex
	for _, h := range hs {
		h := h
		wg.Add(1)
		sem <- struct{}{}
		go func() {
			defer wg.Done()
			defer func() { <-sem }()
			th := time.Now()
			ex := &explorer{i: i, harness: h, name: h.Name(), maxSteps: *maxSteps, maxPaths: *maxPaths, maxDepth: *maxDepth,
				maxPreempt: *preempt, trackRaces: *races, xsolvers: xs, xrate: *xrate, modelsWanted: *samples}
			if err := ex.explore(perH, *solver, *timeoutMs); err != nil {
				fatal(err)
			}
			hr := &harnessReport{Name: h.Name(), Paths: ex.stats.paths, PathsOK: ex.stats.pathsOK, ReachedEnd: ex.reachedEnd,
				AssumeFalse: ex.stats.assumeFalse, Unfair: ex.stats.unfair, BranchPoints: ex.stats.branchPoints, SplitPoints: ex.stats.splitPoints,
				SchedPoints: ex.stats.schedPoints, Instrs: ex.stats.instrs, MaxDecisions: ex.stats.maxDecisions,
				Results: ex.results, OKSamples: ex.okSamples, WallS: time.Since(th).Seconds()}
			hr.Exhaustive = !ex.stop && len(ex.queue) == 0
			for f := range ex.fnSeen {
				hr.Functions = append(hr.Functions, f)
			}
			sort.Strings(hr.Functions)
			mu.Lock()
			rep.Harnesses = append(rep.Harnesses, hr)
			mu.Unlock()
			st := "ok"
			if len(ex.results) > 0 {
				st = ex.results[0].Outcome + ": " + ex.results[0].Msg
			}
			fmt.Fprintf(os.Stderr, "%-50s paths=%d ok=%d end=%d dropped=%d %.1fs %s\n", h.Name(), hr.Paths, hr.PathsOK, hr.ReachedEnd, hr.AssumeFalse, hr.WallS, st)
		}()
	}
	wg.Wait()
	for _, s := range xs {
		s.Close()
	}
	sort.Slice(rep.Harnesses, func(a, b int) bool { return rep.Harnesses[a].Name < rep.Harnesses[b].Name })
	rep.Solver = map[string]int64{
		"queries": atomic.LoadInt64(&gStats.queries), "sat": gStats.sat, "unsat": gStats.unsat, "unknown": gStats.unknown,
		"cache_hits": gStats.cacheHits, "cross_checked": gStats.xchecked, "cross_disagreements": gStats.xdisagree,
	}
	rep.SolverS = float64(gStats.nanos) / 1e9
	rep.WallS = time.Since(t0).Seconds()
	for _, n := range sortedModelNames() {
		rep.Models[n] = modelDocs[n]
	}
	b, _ := json.MarshalIndent(rep, "", " ")
	if *out != "" {
		if err := os.WriteFile(*out, b, 0o644); err != nil {
			fatal(err)
		}
	} else {
		os.Stdout.Write(b)
	}
}

func fatal(err error) {
	fmt.Fprintln(os.Stderr, "symro:", err)
	os.Exit(3)
}
