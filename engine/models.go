package main

// Models ("stubs") for code that is not samber/ro: the harness API, sync,
// sync/atomic, runtime, errors, fmt, log.  Every entry is part of the claim and
// is echoed into the evidence files.

import (
	"fmt"
	"go/token"
	"go/types"
	"sort"
	"strings"
	"sync/atomic"
	"unsafe"

	"golang.org/x/tools/go/ssa"
)

var modelDocs = map[string]string{}

func (i *interpreter) addModel(name, doc string, fn modelFn) {
	i.models[name] = fn
	modelDocs[name] = doc
}

func fieldPtr(p *value, idx int) *value {
	if p == nil {
		panic(runtimePanic("invalid memory address or nil pointer dereference"))
	}
	return &(*p).(structure)[idx]
}

func (r *run) freshName(name string) string {
	n := r.nameCount[name]
	r.nameCount[name] = n + 1
	if n == 0 {
		return name
	}
	return fmt.Sprintf("%s#%d", name, n)
}

func argsToTerms(r *run, vs []value) []*Term {
	var out []*Term
	for _, v := range vs {
		out = append(out, r.toTerm(types.Typ[types.Int64], v))
	}
	return out
}

func (i *interpreter) registerModels(harnessPkgPath string) {
	hp := harnessPkgPath + "."
	// ---------------- harness API ----------------
	i.addModel(hp+"vInt64", "nondeterministic int64 input", func(fr *frame, a []value) value {
		r := fr.t.r
		n := r.freshName(a[0].(string))
		t := r.tt.Var(n, 64)
		r.inputs = append(r.inputs, &inputVar{name: n, kind: "int64", t: t})
		return t
	})
	i.addModel(hp+"vInt", "nondeterministic int input", func(fr *frame, a []value) value {
		r := fr.t.r
		n := r.freshName(a[0].(string))
		t := r.tt.Var(n, 64)
		r.inputs = append(r.inputs, &inputVar{name: n, kind: "int", t: t})
		return t
	})
	i.addModel(hp+"vBool", "nondeterministic bool input", func(fr *frame, a []value) value {
		r := fr.t.r
		n := r.freshName(a[0].(string))
		t := r.tt.Var(n, 0)
		r.inputs = append(r.inputs, &inputVar{name: n, kind: "bool", t: t})
		return t
	})
	i.addModel(hp+"vChoice", "finite nondeterministic choice (one child path per value)", func(fr *frame, a []value) value {
		r := fr.t.r
		n := r.freshName(a[0].(string))
		k := int(asInt64(a[1]))
		c := r.decide("choice:"+n, k)
		r.inputs = append(r.inputs, &inputVar{name: n, kind: "choice", cval: int64(c)})
		return c
	})
	i.addModel(hp+"vUFInt", "uninterpreted function int64^n -> int64", func(fr *frame, a []value) value {
		r := fr.t.r
		args := argsToTerms(r, a[1].([]value))
		t := r.tt.UF(a[0].(string), 64, args...)
		r.ufapps = append(r.ufapps, &ufApp{a[0].(string), args, t})
		return t
	})
	i.addModel(hp+"vUFBool", "uninterpreted predicate int64^n -> bool", func(fr *frame, a []value) value {
		r := fr.t.r
		args := argsToTerms(r, a[1].([]value))
		t := r.tt.UF(a[0].(string), 0, args...)
		r.ufapps = append(r.ufapps, &ufApp{a[0].(string), args, t})
		return t
	})
	i.addModel(hp+"vAssume", "assumption: paths violating it are dropped (and counted)", func(fr *frame, a []value) value {
		r := fr.t.r
		switch c := a[0].(type) {
		case bool:
			if !c {
				r.abort(outcomeAssumeFalse, "")
			}
		case *Term:
			if r.pcset[c] {
				return nil
			}
			if !r.feasible(c) {
				r.abort(outcomeAssumeFalse, "")
			}
			r.addPC(c)
		}
		return nil
	})
	i.addModel(hp+"vAssert", "assertion: PC ∧ ¬cond must be unsat", func(fr *frame, a []value) value {
		r := fr.t.r
		msg := a[1].(string)
		site := ""
		if fr.caller != nil {
			site = fr.caller.fn.String()
		}
		r.ex.noteAssert()
		switch c := a[0].(type) {
		case bool:
			if !c {
				r.violate("assert", msg, site)
			}
		case *Term:
			if r.pcset[c] {
				return nil
			}
			nc := r.tt.Not(c)
			if r.feasible(nc) {
				r.addPC(nc)
				r.violate("assert", msg, site)
			}
			r.addPC(c)
		}
		return nil
	})
	i.addModel(hp+"vReach", "reachability witness", func(fr *frame, a []value) value {
		fr.t.r.reached[a[0].(string)] = true
		return nil
	})
	i.addModel(hp+"vTrace", "trace event (compared with the native run)", func(fr *frame, a []value) value {
		r := fr.t.r
		ev := traceEvent{Tag: a[0].(string), Thread: fr.t.id}
		ev.Vals = argsToTerms(r, a[1].([]value))
		r.trace = append(r.trace, ev)
		return nil
	})
	i.addModel(hp+"vGo", "start a harness thread", func(fr *frame, a []value) value {
		fr.t.hpoints++
		fr.t.r.spawn(fr.t, a[0], nil, false, "vGo", false)
		return nil
	})
	i.addModel(hp+"vYield", "scheduling point: any enabled thread may run", func(fr *frame, a []value) value {
		fr.t.hpoints++
		fr.t.yield()
		return nil
	})
	i.addModel(hp+"vQuiesce", "run all other threads until none is enabled (no time passes)", func(fr *frame, a []value) value {
		fr.t.hpoints++
		fr.t.quiesceWait()
		return nil
	})
	i.addModel(hp+"vLive", "census of library-started threads (runnable, blocked)", func(fr *frame, a []value) value {
		run, blk := 0, 0
		for _, u := range fr.t.r.threads {
			if !u.lib {
				continue
			}
			switch u.state {
			case tRunnable:
				run++
			case tBlocked:
				blk++
			}
		}
		return tuple{run, blk}
	})
	i.addModel(hp+"vThread", "current thread id", func(fr *frame, a []value) value { return fr.t.id })
	i.addModel(hp+"vNow", "logical clock (ns)", func(fr *frame, a []value) value {
		return concretizeIfConst(types.Typ[types.Int64], fr.t.r.now)
	})
	i.addModel(hp+"vAdvance", "advance the logical clock by d ns, firing due timers in order", func(fr *frame, a []value) value {
		fr.t.advance(fr.t.r.toTerm(types.Typ[types.Int64], a[0]))
		return nil
	})
	i.addModel(hp+"vPendingTimers", "number of armed timers", func(fr *frame, a []value) value {
		n := 0
		for _, tm := range fr.t.r.timers {
			if tm.active {
				n++
			}
		}
		return n
	})
	i.addModel(hp+"vAnd", "non-short-circuit conjunction (no path fork)", func(fr *frame, a []value) value {
		return fr.t.r.andv(a[0], a[1])
	})
	i.addModel(hp+"vIte", "branch-free selection", func(fr *frame, a []value) value {
		r := fr.t.r
		switch c := a[0].(type) {
		case bool:
			if c {
				return a[1]
			}
			return a[2]
		case *Term:
			return concretizeIfConst(types.Typ[types.Int64], r.tt.Ite(c, r.toTerm(types.Typ[types.Int64], a[1]), r.toTerm(types.Typ[types.Int64], a[2])))
		}
		panic("vIte: bad condition")
	})
	i.addModel(hp+"vSymbolic", "true under the engine, false natively", func(fr *frame, a []value) value { return true })

	// ---------------- sync.Mutex ----------------
	i.addModel("(*sync.Mutex).Lock", "mutual exclusion; blocks while held", func(fr *frame, a []value) value {
		t := fr.t
		st := fieldPtr(a[0].(*value), 0)
		t.schedPointAt(fr, "lock")
		t.block(func() bool { return asInt64(*st) == 0 }, "Mutex.Lock at "+callerSite(fr))
		*st = int32(1)
		t.acquire(st)
		return nil
	})
	i.addModel("(*sync.Mutex).TryLock", "non-blocking acquire", func(fr *frame, a []value) value {
		t := fr.t
		st := fieldPtr(a[0].(*value), 0)
		t.schedPointAt(fr, "trylock")
		if asInt64(*st) == 0 {
			*st = int32(1)
			t.acquire(st)
			return true
		}
		return false
	})
	i.addModel("(*sync.Mutex).Unlock", "release; unlocking an unlocked mutex is a fatal error", func(fr *frame, a []value) value {
		t := fr.t
		st := fieldPtr(a[0].(*value), 0)
		if asInt64(*st) == 0 {
			t.r.violate("crash", "fatal error: sync: unlock of unlocked mutex", callerSite(fr))
		}
		t.release(st)
		*st = int32(0)
		return nil
	})
	// ---------------- sync.RWMutex ----------------
	type rwState struct {
		writer  bool
		readers int
	}
	rw := func(fr *frame, p *value) *rwState {
		r := fr.t.r
		if s, ok := r.sideTables[p]; ok {
			return s.(*rwState)
		}
		s := &rwState{}
		r.sideTables[p] = s
		return s
	}
	i.addModel("(*sync.RWMutex).Lock", "writer lock", func(fr *frame, a []value) value {
		t := fr.t
		p := a[0].(*value)
		s := rw(fr, p)
		t.schedPointAt(fr, "lock")
		t.block(func() bool { return !s.writer && s.readers == 0 }, "RWMutex.Lock at "+callerSite(fr))
		s.writer = true
		t.acquire(p)
		return nil
	})
	i.addModel("(*sync.RWMutex).TryLock", "writer try-lock", func(fr *frame, a []value) value {
		t := fr.t
		p := a[0].(*value)
		s := rw(fr, p)
		t.schedPointAt(fr, "trylock")
		if !s.writer && s.readers == 0 {
			s.writer = true
			t.acquire(p)
			return true
		}
		return false
	})
	i.addModel("(*sync.RWMutex).Unlock", "writer unlock", func(fr *frame, a []value) value {
		t := fr.t
		p := a[0].(*value)
		s := rw(fr, p)
		if !s.writer {
			t.r.violate("crash", "fatal error: sync: Unlock of unlocked RWMutex", callerSite(fr))
		}
		t.release(p)
		s.writer = false
		return nil
	})
	i.addModel("(*sync.RWMutex).RLock", "reader lock", func(fr *frame, a []value) value {
		t := fr.t
		p := a[0].(*value)
		s := rw(fr, p)
		t.schedPointAt(fr, "rlock")
		t.block(func() bool { return !s.writer }, "RWMutex.RLock at "+callerSite(fr))
		s.readers++
		t.acquire(p)
		return nil
	})
	i.addModel("(*sync.RWMutex).TryRLock", "reader try-lock", func(fr *frame, a []value) value {
		t := fr.t
		p := a[0].(*value)
		s := rw(fr, p)
		t.schedPointAt(fr, "tryrlock")
		if !s.writer {
			s.readers++
			t.acquire(p)
			return true
		}
		return false
	})
	i.addModel("(*sync.RWMutex).RUnlock", "reader unlock", func(fr *frame, a []value) value {
		t := fr.t
		p := a[0].(*value)
		s := rw(fr, p)
		if s.readers == 0 {
			t.r.violate("crash", "fatal error: sync: RUnlock of unlocked RWMutex", callerSite(fr))
		}
		t.release(p)
		s.readers--
		return nil
	})
	// ---------------- sync.WaitGroup ----------------
	type wgState struct{ n int64 }
	wgs := func(fr *frame, p *value) *wgState {
		r := fr.t.r
		if s, ok := r.sideTables[p]; ok {
			return s.(*wgState)
		}
		s := &wgState{}
		r.sideTables[p] = s
		return s
	}
	i.addModel("(*sync.WaitGroup).Add", "counter += n; negative counter panics", func(fr *frame, a []value) value {
		t := fr.t
		p := a[0].(*value)
		s := wgs(fr, p)
		t.schedPointAt(fr, "wg.add")
		s.n += t.r.concInt(a[1], "wg.add")
		if s.n < 0 {
			panic(targetPanic{iface{types.Typ[types.String], "sync: negative WaitGroup counter"}})
		}
		t.release(p)
		return nil
	})
	i.addModel("(*sync.WaitGroup).Done", "counter -= 1", func(fr *frame, a []value) value {
		t := fr.t
		p := a[0].(*value)
		s := wgs(fr, p)
		t.schedPointAt(fr, "wg.done")
		s.n--
		if s.n < 0 {
			panic(targetPanic{iface{types.Typ[types.String], "sync: negative WaitGroup counter"}})
		}
		t.release(p)
		return nil
	})
	i.addModel("(*sync.WaitGroup).Wait", "blocks until counter == 0", func(fr *frame, a []value) value {
		t := fr.t
		p := a[0].(*value)
		s := wgs(fr, p)
		t.schedPointAt(fr, "wg.wait")
		t.block(func() bool { return s.n == 0 }, "WaitGroup.Wait at "+callerSite(fr))
		t.acquire(p)
		return nil
	})
	// ---------------- sync.Map ----------------
	type smEntry struct{ k, v value }
	type smState struct{ entries []*smEntry }
	sm := func(fr *frame, p *value) *smState {
		r := fr.t.r
		if s, ok := r.sideTables[p]; ok {
			return s.(*smState)
		}
		s := &smState{}
		r.sideTables[p] = s
		return s
	}
	anyT := types.NewInterfaceType(nil, nil)
	smFind := func(fr *frame, s *smState, k value) int {
		r := fr.t.r
		for i, e := range s.entries {
			if r.truth(r.eqv(anyT, e.k, k), "syncmap-key") {
				return i
			}
		}
		return -1
	}
	i.addModel("(*sync.Map).Load", "atomic map: load", func(fr *frame, a []value) value {
		t := fr.t
		p := a[0].(*value)
		s := sm(fr, p)
		t.schedPointAt(fr, "syncmap")
		t.acquire(p)
		if i := smFind(fr, s, a[1]); i >= 0 {
			return tuple{s.entries[i].v, true}
		}
		return tuple{iface{}, false}
	})
	i.addModel("(*sync.Map).Store", "atomic map: store", func(fr *frame, a []value) value {
		t := fr.t
		p := a[0].(*value)
		s := sm(fr, p)
		t.schedPointAt(fr, "syncmap")
		if i := smFind(fr, s, a[1]); i >= 0 {
			s.entries[i].v = a[2]
		} else {
			s.entries = append(s.entries, &smEntry{a[1], a[2]})
		}
		t.acquire(p)
		t.release(p)
		return nil
	})
	i.addModel("(*sync.Map).LoadOrStore", "atomic map: load or store", func(fr *frame, a []value) value {
		t := fr.t
		p := a[0].(*value)
		s := sm(fr, p)
		t.schedPointAt(fr, "syncmap")
		t.acquire(p)
		if i := smFind(fr, s, a[1]); i >= 0 {
			return tuple{s.entries[i].v, true}
		}
		s.entries = append(s.entries, &smEntry{a[1], a[2]})
		t.release(p)
		return tuple{a[2], false}
	})
	i.addModel("(*sync.Map).LoadAndDelete", "atomic map: load and delete", func(fr *frame, a []value) value {
		t := fr.t
		p := a[0].(*value)
		s := sm(fr, p)
		t.schedPointAt(fr, "syncmap")
		t.acquire(p)
		if i := smFind(fr, s, a[1]); i >= 0 {
			v := s.entries[i].v
			s.entries = append(append([]*smEntry{}, s.entries[:i]...), s.entries[i+1:]...)
			t.release(p)
			return tuple{v, true}
		}
		return tuple{iface{}, false}
	})
	i.addModel("(*sync.Map).Delete", "atomic map: delete", func(fr *frame, a []value) value {
		t := fr.t
		p := a[0].(*value)
		s := sm(fr, p)
		t.schedPointAt(fr, "syncmap")
		t.acquire(p)
		if i := smFind(fr, s, a[1]); i >= 0 {
			s.entries = append(append([]*smEntry{}, s.entries[:i]...), s.entries[i+1:]...)
		}
		t.release(p)
		return nil
	})
	i.addModel("(*sync.Map).Range", "atomic map: range over a snapshot in insertion order (the real order is unspecified)", func(fr *frame, a []value) value {
		t := fr.t
		p := a[0].(*value)
		s := sm(fr, p)
		t.schedPointAt(fr, "syncmap")
		t.acquire(p)
		snap := append([]*smEntry{}, s.entries...)
		// the iteration order of sync.Map.Range is unspecified: insertion order and its
		// reverse are explored (one decision per path, taken at the first Range over >= 2 entries)
		if n := len(snap); n >= 2 {
			r := t.r
			if r.mapRangeMode == 0 {
				r.mapRangeMode = 1 + r.decide("maprange", 2)
			}
			if r.mapRangeMode == 2 {
				for a, b := 0, n-1; a < b; a, b = a+1, b-1 {
					snap[a], snap[b] = snap[b], snap[a]
				}
			}
		}
		for _, e := range snap {
			live := false
			for _, c := range s.entries {
				if c == e {
					live = true
				}
			}
			if !live {
				continue
			}
			res := call(fr.i, fr, 0, a[1], []value{e.k, e.v})
			if !t.r.truth(res, "range-cont") {
				break
			}
		}
		return nil
	})
	i.addModel("(*sync.Map).Clear", "atomic map: clear", func(fr *frame, a []value) value {
		t := fr.t
		p := a[0].(*value)
		s := sm(fr, p)
		t.schedPointAt(fr, "syncmap")
		s.entries = nil
		t.acquire(p)
		t.release(p)
		return nil
	})

	// ---------------- sync/atomic functions ----------------
	for _, ty := range []struct {
		name string
		t    types.Type
	}{{"Int32", types.Typ[types.Int32]}, {"Int64", types.Typ[types.Int64]}, {"Uint32", types.Typ[types.Uint32]}, {"Uint64", types.Typ[types.Uint64]}, {"Uintptr", types.Typ[types.Uintptr]}} {
		ty := ty
		i.addModel("sync/atomic.Load"+ty.name, "sequentially consistent atomic load", func(fr *frame, a []value) value {
			p := nonNil(a[0].(*value))
			fr.t.schedPointAt(fr, "atomic")
			fr.t.acquire(p)
			return *p
		})
		i.addModel("sync/atomic.Store"+ty.name, "sequentially consistent atomic store", func(fr *frame, a []value) value {
			p := nonNil(a[0].(*value))
			fr.t.schedPointAt(fr, "atomic")
			*p = a[1]
			fr.t.release(p)
			return nil
		})
		i.addModel("sync/atomic.Add"+ty.name, "atomic add", func(fr *frame, a []value) value {
			p := nonNil(a[0].(*value))
			fr.t.schedPointAt(fr, "atomic")
			fr.t.acquire(p)
			*p = fr.t.r.binop(tokenADD, ty.t, *p, a[1])
			fr.t.release(p)
			return *p
		})
		i.addModel("sync/atomic.Swap"+ty.name, "atomic swap", func(fr *frame, a []value) value {
			p := nonNil(a[0].(*value))
			fr.t.schedPointAt(fr, "atomic")
			fr.t.acquire(p)
			old := *p
			*p = a[1]
			fr.t.release(p)
			return old
		})
		i.addModel("sync/atomic.CompareAndSwap"+ty.name, "atomic compare-and-swap", func(fr *frame, a []value) value {
			p := nonNil(a[0].(*value))
			fr.t.schedPointAt(fr, "atomic")
			fr.t.acquire(p)
			if fr.t.r.truth(fr.t.r.eqv(ty.t, *p, a[1]), "cas") {
				*p = a[2]
				fr.t.release(p)
				return true
			}
			return false
		})
	}
	// atomic.Pointer[T]: the pointer lives in field v (index 2) as a *value
	ptrField := func(a []value) *value {
		st := (*nonNil(a[0].(*value))).(structure)
		return &st[len(st)-1]
	}
	asPtr := func(v value) *value {
		switch v := v.(type) {
		case *value:
			return v
		case unsafe.Pointer:
			return (*value)(v)
		}
		return nil
	}
	i.addModel("(*sync/atomic.Pointer[T]).Load", "atomic pointer load", func(fr *frame, a []value) value {
		f := ptrField(a)
		fr.t.schedPointAt(fr, "atomic")
		fr.t.acquire(f)
		return asPtr(*f)
	})
	i.addModel("(*sync/atomic.Pointer[T]).Store", "atomic pointer store", func(fr *frame, a []value) value {
		f := ptrField(a)
		fr.t.schedPointAt(fr, "atomic")
		*f = a[1]
		fr.t.release(f)
		return nil
	})
	i.addModel("(*sync/atomic.Pointer[T]).Swap", "atomic pointer swap", func(fr *frame, a []value) value {
		f := ptrField(a)
		fr.t.schedPointAt(fr, "atomic")
		fr.t.acquire(f)
		old := asPtr(*f)
		*f = a[1]
		fr.t.release(f)
		return old
	})
	i.addModel("(*sync/atomic.Pointer[T]).CompareAndSwap", "atomic pointer CAS", func(fr *frame, a []value) value {
		f := ptrField(a)
		fr.t.schedPointAt(fr, "atomic")
		fr.t.acquire(f)
		if asPtr(*f) == asPtr(a[1]) {
			*f = a[2]
			fr.t.release(f)
			return true
		}
		return false
	})
	// atomic.Value: field v any
	i.addModel("(*sync/atomic.Value).Load", "atomic.Value load", func(fr *frame, a []value) value {
		f := fieldPtr(a[0].(*value), 0)
		fr.t.schedPointAt(fr, "atomic")
		fr.t.acquire(f)
		return *f
	})
	i.addModel("(*sync/atomic.Value).Store", "atomic.Value store (nil panics)", func(fr *frame, a []value) value {
		f := fieldPtr(a[0].(*value), 0)
		if a[1].(iface).t == nil {
			panic(targetPanic{iface{types.Typ[types.String], "sync/atomic: store of nil value into Value"}})
		}
		fr.t.schedPointAt(fr, "atomic")
		*f = a[1]
		fr.t.release(f)
		return nil
	})
	i.addModel("(*sync/atomic.Value).Swap", "atomic.Value swap", func(fr *frame, a []value) value {
		f := fieldPtr(a[0].(*value), 0)
		fr.t.schedPointAt(fr, "atomic")
		fr.t.acquire(f)
		old := *f
		*f = a[1]
		fr.t.release(f)
		return old
	})
	i.addModel("(*sync/atomic.Value).CompareAndSwap", "atomic.Value CAS", func(fr *frame, a []value) value {
		f := fieldPtr(a[0].(*value), 0)
		fr.t.schedPointAt(fr, "atomic")
		fr.t.acquire(f)
		if fr.t.r.truth(fr.t.r.eqv(anyT, *f, a[1]), "cas") {
			*f = a[2]
			fr.t.release(f)
			return true
		}
		return false
	})

	// ---------------- runtime ----------------
	i.addModel("runtime.Gosched", "yield: any enabled thread may run next (spin budget 6)", func(fr *frame, a []value) value {
		t := fr.t
		t.spins++
		if t.spins > 64 {
			// a spin that cannot make progress: let others run until something changes
			others := false
			for _, u := range t.r.threads {
				if u != t && u.enabled() {
					others = true
				}
			}
			if !others {
				t.r.violate("deadlock", "livelock: thread spins on Gosched and no other thread can run", callerSite(fr))
			}
			// other threads can run but the schedule never lets the one that would end the spin
			// make progress: an unfair schedule (the Go scheduler is fair to runnable goroutines
			// across Gosched); every state it visits is visited by a fair schedule as well, so
			// the path is dropped, not reported
			atomic.AddInt64(&t.r.ex.stats.unfair, 1)
			t.r.abort(outcomeAssumeFalse, "")
		}
		t.yieldForced()
		return nil
	})
	i.addModel("runtime.GC", "no-op", func(fr *frame, a []value) value { return nil })
	i.addModel("runtime.KeepAlive", "no-op", func(fr *frame, a []value) value { return nil })
	i.addModel("runtime.SetFinalizer", "no-op", func(fr *frame, a []value) value { return nil })
	i.addModel("runtime.Caller", "opaque", func(fr *frame, a []value) value {
		return tuple{uintptr(0), "unknown.go", 0, false}
	})

	// ---------------- errors / fmt / log ----------------
	i.addModel("errors.Is", "walks Unwrap chains; == on comparable values; Is methods honoured", func(fr *frame, a []value) value {
		return errorsIs(fr, a[0].(iface), a[1].(iface))
	})
	i.addModel("errors.As", "walks Unwrap chains; assignability by go/types", func(fr *frame, a []value) value {
		return errorsAs(fr, a[0].(iface), a[1].(iface))
	})
	i.addModel("fmt.Errorf", "error with formatted (approximate) text; %w operand kept for Unwrap", func(fr *frame, a []value) value {
		return fmtErrorf(fr, a[0].(string), a[1].([]value))
	})
	i.addModel("fmt.Sprintf", "approximate formatting of concrete values; symbolic values print as <sym>", func(fr *frame, a []value) value {
		return sprintf(fr, a[0].(string), a[1].([]value))
	})
	i.addModel("fmt.Sprint", "approximate formatting", func(fr *frame, a []value) value {
		var parts []string
		for _, v := range a[0].([]value) {
			parts = append(parts, fmtValue(fr, v, 'v'))
		}
		return strings.Join(parts, " ")
	})
	i.addModel("fmt.Sprintln", "approximate formatting", func(fr *frame, a []value) value {
		var parts []string
		for _, v := range a[0].([]value) {
			parts = append(parts, fmtValue(fr, v, 'v'))
		}
		return strings.Join(parts, " ") + "\n"
	})
	for _, n := range []string{"fmt.Printf", "fmt.Println", "fmt.Print", "log.Printf", "log.Println", "log.Print", "fmt.Fprintf", "fmt.Fprintln", "fmt.Fprint"} {
		i.addModel(n, "output discarded", func(fr *frame, a []value) value {
			if strings.HasPrefix(fr.fn.String(), "fmt.") {
				return tuple{0, iface{}}
			}
			return nil
		})
	}
	i.addModel("os.Exit", "process exit = crash", func(fr *frame, a []value) value {
		fr.t.r.violate("crash", "os.Exit called", callerSite(fr))
		return nil
	})
}

const tokenADD = token.ADD

func nonNil(p *value) *value {
	if p == nil {
		panic(runtimePanic("invalid memory address or nil pointer dereference"))
	}
	return p
}

func callerSite(fr *frame) string {
	c := fr.caller
	for c != nil && c.fn != nil && c.fn.Pkg != nil && (c.fn.Pkg.Pkg.Path() == "sync" || c.fn.Pkg.Pkg.Path() == "sync/atomic") {
		c = c.caller
	}
	if c == nil || c.fn == nil {
		return "?"
	}
	if c.curpos != 0 {
		pp := fr.i.fset.Position(c.curpos)
		f := pp.Filename
		if k := strings.LastIndex(f, "/"); k >= 0 {
			f = f[k+1:]
		}
		return fmt.Sprintf("%s:%d", f, pp.Line)
	}
	return c.fn.String()
}

// yieldForced is Gosched: another enabled thread must get a chance if there is one
// (otherwise a spin loop would not terminate under a zero preemption budget).
func (t *thread) yieldForced() {
	r := t.r
	var en []*thread
	for _, u := range r.threads {
		if u != t && u.enabled() {
			en = append(en, u)
		}
	}
	if len(en) == 0 {
		return
	}
	c := r.decide("gosched", len(en))
	t.switchTo(en[c], "gosched")
}

// ---------------------------------------------------------------------------

func (ex *explorer) noteAssert() {}

func callMethod(fr *frame, recv iface, name string, args ...value) (value, bool) {
	if recv.t == nil {
		return nil, false
	}
	ms := fr.i.prog.MethodSets.MethodSet(recv.t)
	for k := 0; k < ms.Len(); k++ {
		sel := ms.At(k)
		if sel.Obj().Name() == name {
			fn := fr.i.prog.MethodValue(sel)
			if fn == nil {
				return nil, false
			}
			return call(fr.i, fr, 0, fn, append([]value{recv.v}, args...)), true
		}
	}
	return nil, false
}

var errorIface = types.Universe.Lookup("error").Type()

func errorsIs(fr *frame, err, target iface) value {
	r := fr.t.r
	if err.t == nil || target.t == nil {
		return err.t == nil && target.t == nil
	}
	comparable := types.Comparable(target.t)
	var walk func(e iface, depth int) bool
	walk = func(e iface, depth int) bool {
		if depth > 50 {
			panic(unsupported("errors.Is: chain too deep"))
		}
		for {
			if e.t == nil {
				return false
			}
			if comparable && sameType(e.t, target.t) && r.truth(r.eqv(e.t, e.v, target.v), "errors.Is") {
				return true
			}
			if m := findMethod(fr, e.t, "Is"); m != nil && m.Signature.Params().Len() == 1 && m.Signature.Results().Len() == 1 {
				if r.truth(call(fr.i, fr, 0, m, []value{e.v, target}), "errors.Is") {
					return true
				}
			}
			if m := findMethod(fr, e.t, "Unwrap"); m != nil && m.Signature.Params().Len() == 0 && m.Signature.Results().Len() == 1 {
				res := call(fr.i, fr, 0, m, []value{e.v})
				switch res := res.(type) {
				case iface:
					e = res
					depth++
					continue
				case []value:
					for _, x := range res {
						if walk(x.(iface), depth+1) {
							return true
						}
					}
					return false
				}
			}
			return false
		}
	}
	return walk(err, 0)
}

func findMethod(fr *frame, t types.Type, name string) *ssa.Function {
	ms := fr.i.prog.MethodSets.MethodSet(t)
	for k := 0; k < ms.Len(); k++ {
		sel := ms.At(k)
		if sel.Obj().Name() == name {
			return fr.i.prog.MethodValue(sel)
		}
	}
	return nil
}

func errorsAs(fr *frame, err, target iface) value {
	if target.t == nil {
		panic(targetPanic{iface{types.Typ[types.String], "errors: target cannot be nil"}})
	}
	pt, ok := target.t.Underlying().(*types.Pointer)
	if !ok {
		panic(targetPanic{iface{types.Typ[types.String], "errors: target must be a non-nil pointer"}})
	}
	elem := pt.Elem()
	tp := target.v.(*value)
	var walk func(e iface, depth int) bool
	walk = func(e iface, depth int) bool {
		for depth < 50 {
			if e.t == nil {
				return false
			}
			if types.AssignableTo(e.t, elem) {
				if types.IsInterface(elem) {
					*tp = e
				} else {
					*tp = e.v
				}
				return true
			}
			if m := findMethod(fr, e.t, "As"); m != nil && m.Signature.Params().Len() == 1 {
				if fr.t.r.truth(call(fr.i, fr, 0, m, []value{e.v, target}), "errors.As") {
					return true
				}
			}
			if m := findMethod(fr, e.t, "Unwrap"); m != nil && m.Signature.Params().Len() == 0 && m.Signature.Results().Len() == 1 {
				res := call(fr.i, fr, 0, m, []value{e.v})
				switch res := res.(type) {
				case iface:
					e = res
					depth++
					continue
				case []value:
					for _, x := range res {
						if walk(x.(iface), depth+1) {
							return true
						}
					}
				}
			}
			return false
		}
		return false
	}
	return walk(err, 0)
}

func fmtValue(fr *frame, v value, verb rune) string {
	switch v := v.(type) {
	case iface:
		if v.t == nil {
			return "<nil>"
		}
		if verb == 'T' {
			return typeShort(v.t)
		}
		if verb != 'd' {
			if types.Implements(v.t, errorIface.Underlying().(*types.Interface)) {
				if s, ok := callMethod(fr, v, "Error"); ok {
					if str, ok := s.(string); ok {
						return str
					}
				}
			}
			if m := findMethod(fr, v.t, "String"); m != nil && m.Signature.Params().Len() == 0 && m.Signature.Results().Len() == 1 {
				if s, ok := call(fr.i, fr, 0, m, []value{v.v}).(string); ok {
					return s
				}
			}
		}
		return fmtValue(fr, v.v, verb)
	case *Term:
		return "<sym>"
	case string:
		if verb == 'q' {
			return fmt.Sprintf("%q", v)
		}
		return v
	case nil:
		return "<nil>"
	}
	return toString(v)
}

func sprintf(fr *frame, format string, args []value) string {
	var sb strings.Builder
	ai := 0
	for k := 0; k < len(format); k++ {
		c := format[k]
		if c != '%' {
			sb.WriteByte(c)
			continue
		}
		k++
		// skip flags/width
		for k < len(format) && strings.ContainsRune("+-# 0123456789.", rune(format[k])) {
			k++
		}
		if k >= len(format) {
			break
		}
		verb := rune(format[k])
		if verb == '%' {
			sb.WriteByte('%')
			continue
		}
		if ai < len(args) {
			sb.WriteString(fmtValue(fr, args[ai], verb))
			ai++
		} else {
			sb.WriteString("%!" + string(verb) + "(MISSING)")
		}
	}
	return sb.String()
}

// fmtErrorf builds *fmt.wrapError (with %w) or *errors.errorString.
func fmtErrorf(fr *frame, format string, args []value) value {
	msg := sprintf(fr, format, args)
	// find %w operand
	ai := 0
	var wrapped *iface
	for k := 0; k < len(format); k++ {
		if format[k] != '%' {
			continue
		}
		k++
		for k < len(format) && strings.ContainsRune("+-# 0123456789.", rune(format[k])) {
			k++
		}
		if k >= len(format) {
			break
		}
		if format[k] == '%' {
			continue
		}
		if format[k] == 'w' && ai < len(args) {
			if e, ok := args[ai].(iface); ok && e.t != nil {
				wrapped = &e
			}
		}
		ai++
	}
	prog := fr.i.prog
	if wrapped != nil {
		if pkg := prog.ImportedPackage("fmt"); pkg != nil {
			if tn := pkg.Type("wrapError"); tn != nil {
				var cell value = structure{msg, *wrapped}
				return iface{types.NewPointer(tn.Type()), &cell}
			}
		}
	}
	pkg := prog.ImportedPackage("errors")
	tn := pkg.Type("errorString")
	var cell value = structure{msg}
	return iface{types.NewPointer(tn.Type()), &cell}
}

func sortedModelNames() []string {
	var names []string
	for n := range modelDocs {
		names = append(names, n)
	}
	sort.Strings(names)
	return names
}
