package main

// A long-lived SMT solver process (z3 -in, z3-new -in, cvc5 --incremental) fed
// with self-contained push/pop queries.  Any "(error" line or "unknown" makes
// the query inconclusive; it is never read as unsat.

import (
	"bufio"
	"fmt"
	"io"
	"os/exec"
	"strconv"
	"strings"
	"sync"
	"sync/atomic"
	"time"
)

type satResult int

const (
	resUnsat satResult = iota
	resSat
	resUnknown
)

func (r satResult) String() string { return [...]string{"unsat", "sat", "unknown"}[r] }

type Solver struct {
	name string
	cmd  *exec.Cmd
	in   io.WriteCloser
	out  *bufio.Reader
	mu   sync.Mutex
}

type solverStats struct {
	queries   int64
	sat       int64
	unsat     int64
	unknown   int64
	nanos     int64
	cacheHits int64
	xchecked  int64
	xdisagree int64
}

var gStats solverStats

func startSolver(kind string, timeoutMs int) (*Solver, error) {
	var cmd *exec.Cmd
	switch kind {
	case "z3":
		cmd = exec.Command("/usr/bin/z3", "-in", fmt.Sprintf("-t:%d", timeoutMs))
	case "z3-new":
		cmd = exec.Command("z3-new", "-in", fmt.Sprintf("-t:%d", timeoutMs))
	case "cvc5":
		cmd = exec.Command("cvc5", "--incremental", "--lang=smt2", "--produce-models", fmt.Sprintf("--tlimit-per=%d", timeoutMs))
	default:
		return nil, fmt.Errorf("unknown solver %q", kind)
	}
	in, err := cmd.StdinPipe()
	if err != nil {
		return nil, err
	}
	out, err := cmd.StdoutPipe()
	if err != nil {
		return nil, err
	}
	cmd.Stderr = cmd.Stdout
	if err := cmd.Start(); err != nil {
		return nil, err
	}
	s := &Solver{name: kind, cmd: cmd, in: in, out: bufio.NewReaderSize(out, 1<<16)}
	if kind == "cvc5" {
		io.WriteString(in, "(set-logic ALL)\n")
	} else {
		io.WriteString(in, "(set-option :produce-models true)\n")
	}
	return s, nil
}

func (s *Solver) Close() {
	if s == nil || s.cmd == nil {
		return
	}
	s.in.Close()
	done := make(chan struct{})
	go func() { s.cmd.Wait(); close(done) }()
	select {
	case <-done:
	case <-time.After(2 * time.Second):
		s.cmd.Process.Kill()
	}
}

const marker = "###symro-marker###"

func (s *Solver) roundtrip(text string) ([]string, error) {
	if _, err := io.WriteString(s.in, text+"(echo \""+marker+"\")\n"); err != nil {
		return nil, err
	}
	var lines []string
	for {
		line, err := s.out.ReadString('\n')
		if err != nil {
			return lines, fmt.Errorf("solver %s died: %v (output so far: %v)", s.name, err, lines)
		}
		line = strings.TrimSpace(line)
		if line == marker || line == "\""+marker+"\"" {
			return lines, nil
		}
		if line != "" {
			lines = append(lines, line)
		}
	}
}

// Check runs one self-contained query. getvals (optional) are evaluated in the
// model when the result is sat.
func (s *Solver) Check(tt *TermTable, asserts []*Term, getvals []*Term) (satResult, []uint64, error) {
	q := buildQuery(tt, asserts, getvals)
	s.mu.Lock()
	defer s.mu.Unlock()
	t0 := time.Now()
	defer func() { atomic.AddInt64(&gStats.nanos, int64(time.Since(t0))) }()
	atomic.AddInt64(&gStats.queries, 1)
	lines, err := s.roundtrip(q)
	if err != nil {
		return resUnknown, nil, err
	}
	res := resUnknown
	bad := false
	for _, l := range lines {
		switch {
		case l == "sat":
			res = resSat
		case l == "unsat":
			res = resUnsat
		case l == "unknown":
			res = resUnknown
		case strings.HasPrefix(l, "(error"):
			bad = true
		}
	}
	if bad {
		s.roundtrip("(pop 1)\n")
		atomic.AddInt64(&gStats.unknown, 1)
		return resUnknown, nil, fmt.Errorf("solver error: %v\nquery:\n%s", lines, q)
	}
	var vals []uint64
	if res == resSat && len(getvals) > 0 {
		p := newPrinter(tt)
		var gv []string
		for _, g := range getvals {
			// no sharing names here: defs would need re-emission; print plainly
			gv = append(gv, p.str(g))
		}
		lines, err = s.roundtrip("(get-value (" + strings.Join(gv, " ") + "))\n")
		if err != nil {
			return resUnknown, nil, err
		}
		txt := strings.Join(lines, " ")
		if strings.Contains(txt, "(error") {
			s.roundtrip("(pop 1)\n")
			return resUnknown, nil, fmt.Errorf("solver get-value error: %s", txt)
		}
		vals, err = parseGetValue(txt, len(getvals))
		if err != nil {
			s.roundtrip("(pop 1)\n")
			return resUnknown, nil, err
		}
	}
	if _, err := s.roundtrip("(pop 1)\n"); err != nil {
		return resUnknown, nil, err
	}
	switch res {
	case resSat:
		atomic.AddInt64(&gStats.sat, 1)
	case resUnsat:
		atomic.AddInt64(&gStats.unsat, 1)
	default:
		atomic.AddInt64(&gStats.unknown, 1)
	}
	return res, vals, nil
}

// parseGetValue parses "((e1 v1) (e2 v2) ...)" returning the values in order.
func parseGetValue(s string, n int) ([]uint64, error) {
	// tokenise into s-expressions: find top-level list, then each pair's last atom.
	toks := tokenize(s)
	pos := 0
	var parse func() interface{}
	parse = func() interface{} {
		if pos >= len(toks) {
			return nil
		}
		t := toks[pos]
		pos++
		if t == "(" {
			var l []interface{}
			for pos < len(toks) && toks[pos] != ")" {
				l = append(l, parse())
			}
			pos++
			return l
		}
		return t
	}
	top, ok := parse().([]interface{})
	if !ok || len(top) != n {
		return nil, fmt.Errorf("get-value: expected %d pairs in %q", n, s)
	}
	out := make([]uint64, n)
	for i, p := range top {
		pair, ok := p.([]interface{})
		if !ok || len(pair) != 2 {
			return nil, fmt.Errorf("get-value: bad pair in %q", s)
		}
		v, err := atomValue(pair[1])
		if err != nil {
			return nil, err
		}
		out[i] = v
	}
	return out, nil
}

func atomValue(a interface{}) (uint64, error) {
	switch a := a.(type) {
	case string:
		switch {
		case a == "true":
			return 1, nil
		case a == "false":
			return 0, nil
		case strings.HasPrefix(a, "#x"):
			return strconv.ParseUint(a[2:], 16, 64)
		case strings.HasPrefix(a, "#b"):
			return strconv.ParseUint(a[2:], 2, 64)
		}
	case []interface{}:
		// (_ bv123 64)
		if len(a) == 3 {
			if s, ok := a[1].(string); ok && strings.HasPrefix(s, "bv") {
				return strconv.ParseUint(s[2:], 10, 64)
			}
		}
	}
	return 0, fmt.Errorf("get-value: cannot parse value %v", a)
}

func tokenize(s string) []string {
	var toks []string
	i := 0
	for i < len(s) {
		c := s[i]
		switch {
		case c == '(' || c == ')':
			toks = append(toks, string(c))
			i++
		case c == ' ' || c == '\t' || c == '\n':
			i++
		case c == '|':
			j := i + 1
			for j < len(s) && s[j] != '|' {
				j++
			}
			toks = append(toks, s[i:j+1])
			i = j + 1
		default:
			j := i
			for j < len(s) && s[j] != '(' && s[j] != ')' && s[j] != ' ' && s[j] != '\n' {
				j++
			}
			toks = append(toks, s[i:j])
			i = j
		}
	}
	return toks
}
