package main

// Logical time.  A single clock `now` (BV64, nanoseconds, monotone).  Timers,
// tickers and sleeps hold their deadline as a term; time passes only (a) when
// the harness calls vAdvance(d) with a possibly symbolic d, or (b) when no
// thread can run and a timer is pending (discrete-event step to the earliest
// deadline).  Which of several symbolic deadlines is earliest is decided by
// the solver (fork).

import (
	"go/types"
)

type timer struct {
	id       int
	deadline *Term
	period   *Term // ticker
	active   bool
	fn       value    // AfterFunc
	ch       *chanObj // Timer/Ticker channel
	sleeper  *thread  // time.Sleep
	fired    bool
	obj      *value // *time.Timer / *time.Ticker cell
	origin   string
	vc       vclock
}

func (r *run) newTimer(t *thread, d *Term, origin string) *timer {
	r.timerN++
	tm := &timer{id: r.timerN, deadline: r.tt.Bin("bvadd", r.now, d), active: true, origin: origin, vc: t.vc.clone()}
	t.vc.tick(t.id)
	r.timers = append(r.timers, tm)
	return tm
}

func (r *run) activeTimers() []*timer {
	var out []*timer
	for _, tm := range r.timers {
		if tm.active {
			out = append(out, tm)
		}
	}
	return out
}

// earliest picks (forking if needed) the active timer with the least deadline.
func (r *run) earliest(cands []*timer) *timer {
	if len(cands) == 1 {
		return cands[0]
	}
	for k, c := range cands[:len(cands)-1] {
		var cond value = true
		for j, o := range cands {
			if j == k {
				continue
			}
			var le *Term
			if j < k {
				le = r.tt.Cmp("bvslt", c.deadline, o.deadline)
			} else {
				le = r.tt.Cmp("bvsle", c.deadline, o.deadline)
			}
			cond = r.andv(cond, concretizeIfConst(types.Typ[types.Bool], le))
		}
		if r.truth(cond, "timer-order") {
			return c
		}
	}
	return cands[len(cands)-1]
}

// fireNextTimer advances the clock to the earliest deadline and fires it.
func (r *run) fireNextTimer() bool {
	cands := r.activeTimers()
	if len(cands) == 0 {
		return false
	}
	tm := r.earliest(cands)
	// now = max(now, deadline)
	later := r.tt.Cmp("bvslt", r.now, tm.deadline)
	r.now = r.tt.Ite(later, tm.deadline, r.now)
	r.fire(tm)
	return true
}

func (r *run) fire(tm *timer) {
	if tm.period != nil {
		tm.deadline = r.tt.Bin("bvadd", tm.deadline, tm.period)
	} else {
		tm.active = false
	}
	tm.fired = true
	switch {
	case tm.fn != nil:
		// AfterFunc: the callback runs in its own goroutine
		th := r.newThread(nil, true, "AfterFunc@"+tm.origin)
		th.vc.join(tm.vc)
		r.wg.Add(1)
		fn := tm.fn
		go th.main(func(fr *frame) { call(r.i, fr, 0, fn, nil) })
	case tm.ch != nil:
		// non-blocking send of the current time (capacity-1 channel drops ticks)
		c := tm.ch
		delivered := false
		for _, u := range c.recvWait {
			if u.state == tBlocked && !u.chanDone {
				u.completeRecv(c, r.timeValue(r.now), true, nil)
				u.vc.join(tm.vc)
				delivered = true
				break
			}
		}
		if !delivered && len(c.buf) < c.cap {
			c.buf = append(c.buf, r.timeValue(r.now))
			c.sendVC = append(c.sendVC, tm.vc.clone())
		}
	case tm.sleeper != nil:
		// woken through its canRun predicate
	}
}

// advance moves the clock forward by d, firing every timer that becomes due, each
// followed by a run to quiescence.
func (t *thread) advance(d *Term) {
	r := t.r
	target := r.tt.Bin("bvadd", r.now, d)
	for {
		cands := r.activeTimers()
		if len(cands) == 0 {
			break
		}
		tm := r.earliest(cands)
		due := concretizeIfConst(types.Typ[types.Bool], r.tt.Cmp("bvsle", tm.deadline, target))
		if !r.truth(due, "timer-due") {
			break
		}
		later := r.tt.Cmp("bvslt", r.now, tm.deadline)
		r.now = r.tt.Ite(later, tm.deadline, r.now)
		dl := tm.deadline
		r.fire(tm)
		// timers armed for the very same instant fire together: their goroutines then run in any
		// order (the run time gives no order between them)
		for _, o := range r.activeTimers() {
			if o != tm && r.truth(concretizeIfConst(types.Typ[types.Bool], r.tt.Eq(o.deadline, dl)), "timer-tie") {
				r.fire(o)
			}
		}
		t.hpoints++ // mirrored by the virtual-time shim (HPoint after each firing)
		t.quiesceWait()
	}
	r.now = target
}

// timeValue builds a time.Time carrying a monotonic reading (wall has the
// hasMonotonic bit; ext is the reading in ns).
func (r *run) timeValue(ns *Term) value {
	return structure{uint64(1) << 63, concretizeIfConst(types.Typ[types.Int64], ns), (*value)(nil)}
}

func timeNS(r *run, v value) *Term {
	st := v.(structure)
	return r.toTerm(types.Typ[types.Int64], st[1])
}

func (i *interpreter) registerTimeModels() {
	dur := types.Typ[types.Int64]
	i.addModel("time.Now", "reads the logical clock", func(fr *frame, a []value) value {
		return fr.t.r.timeValue(fr.t.r.now)
	})
	i.addModel("time.Since", "now - t on the logical clock", func(fr *frame, a []value) value {
		r := fr.t.r
		return concretizeIfConst(dur, r.tt.Bin("bvsub", r.now, timeNS(r, a[0])))
	})
	i.addModel("time.Until", "t - now on the logical clock", func(fr *frame, a []value) value {
		r := fr.t.r
		return concretizeIfConst(dur, r.tt.Bin("bvsub", timeNS(r, a[0]), r.now))
	})
	i.addModel("(time.Time).Sub", "difference of logical instants", func(fr *frame, a []value) value {
		r := fr.t.r
		return concretizeIfConst(dur, r.tt.Bin("bvsub", timeNS(r, a[0]), timeNS(r, a[1])))
	})
	i.addModel("(time.Time).Add", "logical instant + d", func(fr *frame, a []value) value {
		r := fr.t.r
		return r.timeValue(r.tt.Bin("bvadd", timeNS(r, a[0]), r.toTerm(dur, a[1])))
	})
	i.addModel("(time.Time).Before", "logical order", func(fr *frame, a []value) value {
		r := fr.t.r
		return concretizeIfConst(types.Typ[types.Bool], r.tt.Cmp("bvslt", timeNS(r, a[0]), timeNS(r, a[1])))
	})
	i.addModel("(time.Time).After", "logical order", func(fr *frame, a []value) value {
		r := fr.t.r
		return concretizeIfConst(types.Typ[types.Bool], r.tt.Cmp("bvslt", timeNS(r, a[1]), timeNS(r, a[0])))
	})
	i.addModel("(time.Time).Equal", "logical equality", func(fr *frame, a []value) value {
		r := fr.t.r
		return concretizeIfConst(types.Typ[types.Bool], r.tt.Eq(timeNS(r, a[0]), timeNS(r, a[1])))
	})
	i.addModel("(time.Time).IsZero", "zero Time has no monotonic bit", func(fr *frame, a []value) value {
		st := a[0].(structure)
		return asInt64(st[0]) == 0 && !isSym(st[1]) && asInt64(st[1]) == 0
	})
	i.addModel("(time.Time).UnixNano", "logical ns", func(fr *frame, a []value) value {
		return concretizeIfConst(dur, timeNS(fr.t.r, a[0]))
	})
	i.addModel("(time.Time).UnixMilli", "logical ms (concrete clock only)", func(fr *frame, a []value) value {
		v := timeNS(fr.t.r, a[0])
		if !v.isConst() {
			panic(unsupported("UnixMilli of symbolic time"))
		}
		return sext(v.val, 64) / 1e6
	})
	i.addModel("time.Sleep", "blocks until the logical clock has advanced by d", func(fr *frame, a []value) value {
		t := fr.t
		r := t.r
		d := r.toTerm(dur, a[0])
		if d.isConst() && sext(d.val, 64) <= 0 {
			t.yield()
			return nil
		}
		tm := r.newTimer(t, d, callerSite(fr))
		tm.sleeper = t
		t.block(func() bool { return tm.fired }, "time.Sleep at "+callerSite(fr))
		return nil
	})
	i.addModel("time.AfterFunc", "runs f in its own goroutine once the deadline has passed", func(fr *frame, a []value) value {
		t := fr.t
		r := t.r
		tm := r.newTimer(t, r.toTerm(dur, a[0]), callerSite(fr))
		tm.fn = a[1]
		var cell value = structure{(*chanObj)(nil), false}
		tm.obj = &cell
		r.sideTables[tm.obj] = tm
		return tm.obj
	})
	mkChanTimer := func(fr *frame, d value, period bool) value {
		t := fr.t
		r := t.r
		dt := r.toTerm(dur, d)
		if period && dt.isConst() && sext(dt.val, 64) <= 0 {
			panic(targetPanic{iface{types.Typ[types.String], "non-positive interval for NewTicker"}})
		}
		tm := r.newTimer(t, dt, callerSite(fr))
		if period {
			tm.period = dt
		}
		tm.ch = r.newChan(1, nil, nil, nil)
		var cell value = structure{tm.ch, false}
		tm.obj = &cell
		r.sideTables[tm.obj] = tm
		return tm.obj
	}
	i.addModel("time.NewTimer", "timer with a capacity-1 channel", func(fr *frame, a []value) value {
		return mkChanTimer(fr, a[0], false)
	})
	i.addModel("time.NewTicker", "ticker with a capacity-1 channel that drops ticks", func(fr *frame, a []value) value {
		return mkChanTimer(fr, a[0], true)
	})
	i.addModel("time.After", "NewTimer(d).C", func(fr *frame, a []value) value {
		p := mkChanTimer(fr, a[0], false).(*value)
		return (*p).(structure)[0]
	})
	i.addModel("time.Tick", "NewTicker(d).C", func(fr *frame, a []value) value {
		p := mkChanTimer(fr, a[0], true).(*value)
		return (*p).(structure)[0]
	})
	stop := func(fr *frame, a []value) value {
		tm, ok := fr.t.r.sideTables[a[0].(*value)].(*timer)
		if !ok {
			panic(targetPanic{iface{types.Typ[types.String], "time: Stop called on uninitialized Timer"}})
		}
		fr.t.schedPoint("timer.stop")
		was := tm.active
		tm.active = false
		return was
	}
	i.addModel("(*time.Timer).Stop", "disarms; reports whether it was armed", stop)
	i.addModel("(*time.Ticker).Stop", "disarms", func(fr *frame, a []value) value { stop(fr, a); return nil })
	i.addModel("(*time.Timer).Reset", "re-arms at now+d; reports whether it was armed", func(fr *frame, a []value) value {
		r := fr.t.r
		tm, ok := r.sideTables[a[0].(*value)].(*timer)
		if !ok {
			panic(targetPanic{iface{types.Typ[types.String], "time: Reset called on uninitialized Timer"}})
		}
		fr.t.schedPoint("timer.reset")
		was := tm.active
		tm.active = true
		tm.fired = false
		tm.deadline = r.tt.Bin("bvadd", r.now, r.toTerm(dur, a[1]))
		tm.vc = fr.t.vc.clone()
		if tm.ch != nil {
			tm.ch.buf = nil // Go 1.23 semantics: no stale value after Reset
			tm.ch.sendVC = nil
		}
		return was
	})
	i.addModel("(*time.Ticker).Reset", "re-arms with a new period", func(fr *frame, a []value) value {
		r := fr.t.r
		tm := r.sideTables[a[0].(*value)].(*timer)
		fr.t.schedPoint("timer.reset")
		d := r.toTerm(dur, a[1])
		tm.active = true
		tm.period = d
		tm.deadline = r.tt.Bin("bvadd", r.now, d)
		return nil
	})
}
