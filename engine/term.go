package main

// Hash-consed SMT terms over Bool and fixed-width bit-vectors, with constant
// folding and SMT-LIB2 printing.  Machine integers are bit-vectors of their Go
// width; nothing here uses mathematical integers.

import (
	"fmt"
	"sort"
	"strings"
)

// Term is an SMT term. w==0 means Bool, otherwise a bit-vector of width w.
type Term struct {
	op   string
	w    int
	args []*Term
	name string // variable / UF name
	val  uint64 // constant value (masked); bool: 0/1
	hi   int    // extract hi / extend amount
	lo   int
	id   int
	key  string
}

// TermTable interns terms for one path execution.
type TermTable struct {
	tab  map[string]*Term
	next int
	// declarations
	vars map[string]*Term // name -> var term
	ufs  map[string]*ufDecl
}

type ufDecl struct {
	name string
	argw []int
	resw int
}

func newTermTable() *TermTable {
	return &TermTable{tab: map[string]*Term{}, vars: map[string]*Term{}, ufs: map[string]*ufDecl{}}
}

func mask(w int) uint64 {
	if w >= 64 {
		return ^uint64(0)
	}
	return (uint64(1) << uint(w)) - 1
}

func (tt *TermTable) mk(op string, w int, name string, val uint64, hi, lo int, args ...*Term) *Term {
	var sb strings.Builder
	fmt.Fprintf(&sb, "%s/%d/%s/%d/%d/%d", op, w, name, val, hi, lo)
	for _, a := range args {
		fmt.Fprintf(&sb, ",%d", a.id)
	}
	k := sb.String()
	if t, ok := tt.tab[k]; ok {
		return t
	}
	tt.next++
	t := &Term{op: op, w: w, args: args, name: name, val: val, hi: hi, lo: lo, id: tt.next, key: k}
	tt.tab[k] = t
	return t
}

func (t *Term) isConst() bool { return t.op == "const" }
func (t *Term) isTrue() bool  { return t.op == "const" && t.w == 0 && t.val == 1 }
func (t *Term) isFalse() bool { return t.op == "const" && t.w == 0 && t.val == 0 }

func (tt *TermTable) Const(w int, v uint64) *Term {
	return tt.mk("const", w, "", v&mask(w), 0, 0)
}
func (tt *TermTable) Bool(b bool) *Term {
	if b {
		return tt.mk("const", 0, "", 1, 0, 0)
	}
	return tt.mk("const", 0, "", 0, 0, 0)
}
func (tt *TermTable) Var(name string, w int) *Term {
	t := tt.mk("var", w, name, 0, 0, 0)
	tt.vars[name] = t
	return t
}
func (tt *TermTable) UF(name string, resw int, args ...*Term) *Term {
	d, ok := tt.ufs[name]
	if !ok {
		d = &ufDecl{name: name, resw: resw}
		for _, a := range args {
			d.argw = append(d.argw, a.w)
		}
		tt.ufs[name] = d
	}
	return tt.mk("uf", resw, name, 0, 0, 0, args...)
}

func sext(v uint64, w int) int64 {
	if w == 0 {
		return int64(v)
	}
	if w >= 64 {
		return int64(v)
	}
	sh := uint(64 - w)
	return int64(v<<sh) >> sh
}

func (tt *TermTable) Not(a *Term) *Term {
	if a.isConst() {
		return tt.Bool(a.val == 0)
	}
	if a.op == "not" {
		return a.args[0]
	}
	return tt.mk("not", 0, "", 0, 0, 0, a)
}

func (tt *TermTable) And(a, b *Term) *Term {
	if a.isFalse() || b.isFalse() {
		return tt.Bool(false)
	}
	if a.isTrue() {
		return b
	}
	if b.isTrue() {
		return a
	}
	if a == b {
		return a
	}
	return tt.mk("and", 0, "", 0, 0, 0, a, b)
}

func (tt *TermTable) Or(a, b *Term) *Term {
	if a.isTrue() || b.isTrue() {
		return tt.Bool(true)
	}
	if a.isFalse() {
		return b
	}
	if b.isFalse() {
		return a
	}
	if a == b {
		return a
	}
	return tt.mk("or", 0, "", 0, 0, 0, a, b)
}

func (tt *TermTable) Ite(c, a, b *Term) *Term {
	if c.isTrue() {
		return a
	}
	if c.isFalse() {
		return b
	}
	if a == b {
		return a
	}
	if a.w == 0 {
		if a.isTrue() && b.isFalse() {
			return c
		}
		if a.isFalse() && b.isTrue() {
			return tt.Not(c)
		}
	}
	return tt.mk("ite", a.w, "", 0, 0, 0, c, a, b)
}

func (tt *TermTable) Eq(a, b *Term) *Term {
	if a == b {
		return tt.Bool(true)
	}
	if a.isConst() && b.isConst() {
		return tt.Bool(a.val == b.val)
	}
	if a.w == 0 {
		// boolean equality
		if a.isConst() {
			a, b = b, a
		}
		if b.isTrue() {
			return a
		}
		if b.isFalse() {
			return tt.Not(a)
		}
	}
	if a.id > b.id {
		a, b = b, a
	}
	return tt.mk("=", 0, "", 0, 0, 0, a, b)
}

// Cmp builds a comparison: op in bvult,bvule,bvslt,bvsle.
func (tt *TermTable) Cmp(op string, a, b *Term) *Term {
	if a.isConst() && b.isConst() {
		var r bool
		switch op {
		case "bvult":
			r = a.val < b.val
		case "bvule":
			r = a.val <= b.val
		case "bvslt":
			r = sext(a.val, a.w) < sext(b.val, b.w)
		case "bvsle":
			r = sext(a.val, a.w) <= sext(b.val, b.w)
		}
		return tt.Bool(r)
	}
	if a == b {
		return tt.Bool(op == "bvule" || op == "bvsle")
	}
	return tt.mk(op, 0, "", 0, 0, 0, a, b)
}

// Bin builds a bit-vector binary operation.
func (tt *TermTable) Bin(op string, a, b *Term) *Term {
	w := a.w
	if a.isConst() && b.isConst() {
		x, y := a.val, b.val
		var r uint64
		ok := true
		switch op {
		case "bvadd":
			r = x + y
		case "bvsub":
			r = x - y
		case "bvmul":
			r = x * y
		case "bvand":
			r = x & y
		case "bvor":
			r = x | y
		case "bvxor":
			r = x ^ y
		case "bvshl":
			if y >= uint64(w) {
				r = 0
			} else {
				r = x << y
			}
		case "bvlshr":
			if y >= uint64(w) {
				r = 0
			} else {
				r = x >> y
			}
		case "bvashr":
			sx := sext(x, w)
			if y >= uint64(w) {
				if sx < 0 {
					r = ^uint64(0)
				} else {
					r = 0
				}
			} else {
				r = uint64(sx >> y)
			}
		case "bvudiv":
			if y == 0 {
				r = ^uint64(0)
			} else {
				r = x / y
			}
		case "bvurem":
			if y == 0 {
				r = x
			} else {
				r = x % y
			}
		case "bvsdiv":
			sx, sy := sext(x, w), sext(y, w)
			if sy == 0 {
				if sx < 0 {
					r = 1
				} else {
					r = ^uint64(0)
				}
			} else if sy == -1 {
				r = uint64(-sx)
			} else {
				r = uint64(sx / sy)
			}
		case "bvsrem":
			sx, sy := sext(x, w), sext(y, w)
			if sy == 0 {
				r = x
			} else if sy == -1 {
				r = 0
			} else {
				r = uint64(sx % sy)
			}
		default:
			ok = false
		}
		if ok {
			return tt.Const(w, r)
		}
	}
	switch op {
	case "bvadd":
		if a.isConst() && a.val == 0 {
			return b
		}
		if b.isConst() && b.val == 0 {
			return a
		}
		// (x + c1) + c2 -> x + (c1+c2)
		if b.isConst() && a.op == "bvadd" && a.args[1].isConst() {
			return tt.Bin("bvadd", a.args[0], tt.Const(w, a.args[1].val+b.val))
		}
		if a.isConst() {
			a, b = b, a
		}
	case "bvsub":
		if b.isConst() && b.val == 0 {
			return a
		}
		if a == b {
			return tt.Const(w, 0)
		}
		if b.isConst() {
			return tt.Bin("bvadd", a, tt.Const(w, -b.val))
		}
	case "bvmul":
		if a.isConst() {
			a, b = b, a
		}
		if b.isConst() && b.val == 1 {
			return a
		}
		if b.isConst() && b.val == 0 {
			return b
		}
	case "bvand":
		if a.isConst() {
			a, b = b, a
		}
		if b.isConst() && b.val == 0 {
			return b
		}
		if b.isConst() && b.val == mask(w) {
			return a
		}
		if a == b {
			return a
		}
	case "bvor", "bvxor":
		if a.isConst() {
			a, b = b, a
		}
		if b.isConst() && b.val == 0 {
			return a
		}
	case "bvshl", "bvlshr", "bvashr":
		if b.isConst() && b.val == 0 {
			return a
		}
	}
	return tt.mk(op, w, "", 0, 0, 0, a, b)
}

func (tt *TermTable) Neg(a *Term) *Term {
	if a.isConst() {
		return tt.Const(a.w, -a.val)
	}
	return tt.mk("bvneg", a.w, "", 0, 0, 0, a)
}

func (tt *TermTable) BvNot(a *Term) *Term {
	if a.isConst() {
		return tt.Const(a.w, ^a.val)
	}
	return tt.mk("bvnot", a.w, "", 0, 0, 0, a)
}

// Resize converts a bit-vector to width w, sign- or zero-extending.
func (tt *TermTable) Resize(a *Term, w int, signed bool) *Term {
	if a.w == w {
		return a
	}
	if a.isConst() {
		if w > a.w && signed {
			return tt.Const(w, uint64(sext(a.val, a.w)))
		}
		return tt.Const(w, a.val)
	}
	if w < a.w {
		return tt.mk("extract", w, "", 0, w-1, 0, a)
	}
	if signed {
		return tt.mk("sign_extend", w, "", 0, w-a.w, 0, a)
	}
	return tt.mk("zero_extend", w, "", 0, w-a.w, 0, a)
}

func sortName(w int) string {
	if w == 0 {
		return "Bool"
	}
	return fmt.Sprintf("(_ BitVec %d)", w)
}

func constLit(w int, v uint64) string {
	if w == 0 {
		if v != 0 {
			return "true"
		}
		return "false"
	}
	if w%4 == 0 {
		return fmt.Sprintf("#x%0*x", w/4, v&mask(w))
	}
	return fmt.Sprintf("#b%0*b", w, v&mask(w))
}

// smtPrinter prints terms with let-free sharing through define-funs emitted in
// dependency order (each query is self-contained text inside push/pop).
type smtPrinter struct {
	defs    strings.Builder
	named   map[*Term]string
	count   map[*Term]int
	vars    map[string]*Term
	ufs     map[string]bool
	tt      *TermTable
	counter int
}

func newPrinter(tt *TermTable) *smtPrinter {
	return &smtPrinter{named: map[*Term]string{}, count: map[*Term]int{}, vars: map[string]*Term{}, ufs: map[string]bool{}, tt: tt}
}

func (p *smtPrinter) countRefs(t *Term) {
	p.count[t]++
	if p.count[t] > 1 {
		return
	}
	for _, a := range t.args {
		p.countRefs(a)
	}
}

func (p *smtPrinter) str(t *Term) string {
	if n, ok := p.named[t]; ok {
		return n
	}
	var s string
	switch t.op {
	case "const":
		return constLit(t.w, t.val)
	case "var":
		p.vars[t.name] = t
		return smtName(t.name)
	case "uf":
		p.ufs[t.name] = true
		parts := []string{smtName(t.name)}
		for _, a := range t.args {
			parts = append(parts, p.str(a))
		}
		s = "(" + strings.Join(parts, " ") + ")"
	case "extract":
		s = fmt.Sprintf("((_ extract %d %d) %s)", t.hi, t.lo, p.str(t.args[0]))
	case "sign_extend", "zero_extend":
		s = fmt.Sprintf("((_ %s %d) %s)", t.op, t.hi, p.str(t.args[0]))
	default:
		parts := []string{t.op}
		for _, a := range t.args {
			parts = append(parts, p.str(a))
		}
		s = "(" + strings.Join(parts, " ") + ")"
	}
	if p.count[t] > 1 && len(s) > 24 {
		p.counter++
		n := fmt.Sprintf("t!%d", p.counter)
		fmt.Fprintf(&p.defs, "(define-fun %s () %s %s)\n", n, sortName(t.w), s)
		p.named[t] = n
		return n
	}
	return s
}

func smtName(n string) string { return "|" + strings.ReplaceAll(n, "|", "_") + "|" }

// buildQuery renders (push) decls asserts (check-sat); the caller pops.
// Variables and UFs that occur only in getvals are declared as well.
func buildQuery(tt *TermTable, asserts []*Term, getvals []*Term) string {
	p := newPrinter(tt)
	for _, a := range asserts {
		p.countRefs(a)
	}
	for _, a := range getvals {
		p.countRefs(a)
	}
	var body strings.Builder
	var lines []string
	for _, a := range asserts {
		lines = append(lines, "(assert "+p.str(a)+")")
	}
	var gv []string
	for _, a := range getvals {
		gv = append(gv, p.str(a))
	}
	// declarations first
	var names []string
	for n := range p.vars {
		names = append(names, n)
	}
	sort.Strings(names)
	body.WriteString("(push 1)\n")
	for _, n := range names {
		fmt.Fprintf(&body, "(declare-const %s %s)\n", smtName(n), sortName(p.vars[n].w))
	}
	var ufn []string
	for n := range p.ufs {
		ufn = append(ufn, n)
	}
	sort.Strings(ufn)
	for _, n := range ufn {
		d := tt.ufs[n]
		var aw []string
		for _, w := range d.argw {
			aw = append(aw, sortName(w))
		}
		fmt.Fprintf(&body, "(declare-fun %s (%s) %s)\n", smtName(n), strings.Join(aw, " "), sortName(d.resw))
	}
	// defs were emitted while printing; they may reference vars, so they go after decls
	body.WriteString(p.defs.String())
	for _, l := range lines {
		body.WriteString(l)
		body.WriteString("\n")
	}
	_ = gv // values are requested in a second round-trip, only after "sat"
	body.WriteString("(check-sat)\n")
	return body.String()
}

func (t *Term) String() string {
	switch t.op {
	case "const":
		if t.w == 0 {
			return constLit(0, t.val)
		}
		return fmt.Sprintf("%d", sext(t.val, t.w))
	case "var":
		return t.name
	}
	parts := []string{t.op}
	if t.op == "uf" {
		parts[0] = t.name
	}
	for _, a := range t.args {
		parts = append(parts, a.String())
	}
	return "(" + strings.Join(parts, " ") + ")"
}
