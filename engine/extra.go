package main

// Additional models (context, xrand, misc) are registered here.
func (i *interpreter) registerExtraModels() {
}
