package main

import (
	"go/types"
)

// Additional models (context, xrand, misc).
func (i *interpreter) registerExtraModels() {
	i.addModel("context.WithValue", "real valueCtx node; key comparability decided by go/types (the real code asks reflectlite)", func(fr *frame, a []value) value {
		parent := a[0].(iface)
		key := a[1].(iface)
		if parent.t == nil {
			panic(targetPanic{iface{types.Typ[types.String], "cannot create context from nil parent"}})
		}
		if key.t == nil {
			panic(targetPanic{iface{types.Typ[types.String], "nil key"}})
		}
		if !types.Comparable(key.t) {
			panic(targetPanic{iface{types.Typ[types.String], "key is not comparable"}})
		}
		pkg := fr.i.prog.ImportedPackage("context")
		tn := pkg.Type("valueCtx")
		var cell value = structure{parent, key, a[2]}
		return iface{types.NewPointer(tn.Type()), &cell}
	})
}
