package main

import (
	"go/types"
	"math"
	"sort"
	"strings"
)

// Additional models (context, xrand, misc).
func (i *interpreter) registerExtraModels() {
	i.registerPromModels()
	i.registerSortModels()
	// float kernels that are assembly on amd64: computed on concrete values
	for name, f := range map[string]func(float64) float64{
		"math.Floor": math.Floor, "math.Ceil": math.Ceil, "math.Trunc": math.Trunc, "math.Sqrt": math.Sqrt,
		"math.Exp": math.Exp, "math.Log": math.Log, "math.Round": math.Round, "math.RoundToEven": math.RoundToEven,
		"math.archFloor": math.Floor, "math.archCeil": math.Ceil, "math.archTrunc": math.Trunc, "math.archSqrt": math.Sqrt,
	} {
		f := f
		name := name
		i.addModel(name, "computed on a concrete float64", func(fr *frame, a []value) value {
			x, ok := a[0].(float64)
			if !ok {
				panic(unsupported(name + " of a symbolic value"))
			}
			return f(x)
		})
	}
	// bit casts of concrete floats (the real functions go through unsafe.Pointer)
	i.addModel("math.Float64bits", "bit pattern of a concrete float64", func(fr *frame, a []value) value {
		f, ok := a[0].(float64)
		if !ok {
			panic(unsupported("math.Float64bits of a symbolic value"))
		}
		return math.Float64bits(f)
	})
	i.addModel("math.Float64frombits", "float64 from a concrete bit pattern", func(fr *frame, a []value) value {
		b, ok := a[0].(uint64)
		if !ok {
			panic(unsupported("math.Float64frombits of a symbolic value"))
		}
		return math.Float64frombits(b)
	})
	i.addModel("math.Float32bits", "bit pattern of a concrete float32", func(fr *frame, a []value) value {
		f, ok := a[0].(float32)
		if !ok {
			panic(unsupported("math.Float32bits of a symbolic value"))
		}
		return math.Float32bits(f)
	})
	i.addModel("math.Float32frombits", "float32 from a concrete bit pattern", func(fr *frame, a []value) value {
		b, ok := a[0].(uint32)
		if !ok {
			panic(unsupported("math.Float32frombits of a symbolic value"))
		}
		return math.Float32frombits(b)
	})
	i.addModel("context.WithValue", "real valueCtx node; key comparability decided by go/types (the real code asks reflectlite)", func(fr *frame, a []value) value {
		parent := a[0].(iface)
		key := a[1].(iface)
		if parent.t == nil {
			panic(targetPanic{iface{types.Typ[types.String], "cannot create context from nil parent"}})
		}
		if key.t == nil {
			panic(targetPanic{iface{types.Typ[types.String], "nil key"}})
		}
		if !types.Comparable(key.t) {
			panic(targetPanic{iface{types.Typ[types.String], "key is not comparable"}})
		}
		pkg := fr.i.prog.ImportedPackage("context")
		tn := pkg.Type("valueCtx")
		var cell value = structure{parent, key, a[2]}
		return iface{types.NewPointer(tn.Type()), &cell}
	})
}

// ---------------------------------------------------------------------------
// Prometheus client stubs (C19): counters count Inc calls, observers count
// Observe calls; vectors hand out one child per vector.

const promPkg = "github.com/prometheus/client_golang/prometheus"

type promCount struct{ n int64 }

func (i *interpreter) promObj(fr *frame, typeName string) value {
	pkg := fr.i.prog.ImportedPackage(promPkg)
	if pkg == nil {
		panic(unsupported("prometheus package not loaded"))
	}
	tn := pkg.Type(typeName)
	if tn == nil {
		panic(unsupported("prometheus type " + typeName + " not found"))
	}
	cell := zero(tn.Type())
	p := &cell
	fr.t.r.sideTables[p] = &promCount{}
	return iface{types.NewPointer(tn.Type()), p}
}

func (i *interpreter) registerPromModels() {
	hp := i.harnessPkgPath + "."
	i.addModel(promPkg+".NewCounter", "model counter: Inc = +1", func(fr *frame, a []value) value {
		return i.promObj(fr, "counter")
	})
	i.addModel("(*"+promPkg+".counter).Inc", "model counter: Inc = +1", func(fr *frame, a []value) value {
		fr.t.schedPoint("atomic")
		fr.t.r.sideTables[a[0].(*value)].(*promCount).n++
		return nil
	})
	i.addModel("(*"+promPkg+".counter).Add", "model counter: Add(v) counted as one event", func(fr *frame, a []value) value {
		fr.t.schedPoint("atomic")
		fr.t.r.sideTables[a[0].(*value)].(*promCount).n++
		return nil
	})
	i.addModel("(*"+promPkg+".summary).Observe", "model observer: Observe = count+1", func(fr *frame, a []value) value {
		fr.t.schedPoint("atomic")
		fr.t.r.sideTables[a[0].(*value)].(*promCount).n++
		return nil
	})
	i.addModel("(*"+promPkg+".histogram).Observe", "model observer: Observe = count+1", func(fr *frame, a []value) value {
		fr.t.schedPoint("atomic")
		fr.t.r.sideTables[a[0].(*value)].(*promCount).n++
		return nil
	})
	vec := func(typeName string) modelFn {
		return func(fr *frame, a []value) value {
			pkg := fr.i.prog.ImportedPackage(promPkg)
			tn := pkg.Type(typeName)
			cell := zero(tn.Type())
			return &cell
		}
	}
	i.addModel(promPkg+".NewCounterVec", "model vector: one child counter", vec("CounterVec"))
	i.addModel(promPkg+".NewSummaryVec", "model vector: one child observer", vec("SummaryVec"))
	// one child per label set (the key is the sorted "k=v" list of the concrete label values)
	labelKey := func(fr *frame, v value) string {
		m, ok := v.(*mapObj)
		if !ok || m == nil {
			return ""
		}
		var parts []string
		for _, e := range m.entries {
			ks, _ := e.key.(string)
			vs, _ := e.val.(string)
			parts = append(parts, ks+"="+vs)
		}
		sort.Strings(parts)
		return strings.Join(parts, ",")
	}
	child := func(kind string) modelFn {
		return func(fr *frame, a []value) value {
			r := fr.t.r
			p := a[0].(*value)
			kids, _ := r.sideTables[p].(map[string]iface)
			if kids == nil {
				kids = map[string]iface{}
				r.sideTables[p] = kids
			}
			key := ""
			if len(a) > 1 {
				key = labelKey(fr, a[1])
			}
			if c, ok := kids[key]; ok {
				return c
			}
			c := i.promObj(fr, kind).(iface)
			kids[key] = c
			return c
		}
	}
	i.addModel("(*"+promPkg+".CounterVec).With", "model vector: With returns the single child", child("counter"))
	i.addModel("(*"+promPkg+".CounterVec).WithLabelValues", "model vector: child", child("counter"))
	i.addModel("(*"+promPkg+".SummaryVec).With", "model vector: With returns the single child", child("summary"))
	i.addModel("(*"+promPkg+".SummaryVec).WithLabelValues", "model vector: child", child("summary"))
	i.addModel(hp+"vPromCount", "reads a model counter / observer", func(fr *frame, a []value) value {
		r := fr.t.r
		x := a[0].(iface)
		if x.t == nil {
			return int64(-1)
		}
		switch p := x.v.(type) {
		case *value:
			switch c := r.sideTables[p].(type) {
			case *promCount:
				return c.n
			case map[string]iface: // a vector: the sum over its children
				var total int64
				for _, k := range c {
					total += r.sideTables[k.v.(*value)].(*promCount).n
				}
				return total
			}
		}
		return int64(-1)
	})
	i.addModel(hp+"vPromCountL", "reads the child of a model vector whose label set contains name=value", func(fr *frame, a []value) value {
		r := fr.t.r
		x := a[0].(iface)
		want := a[1].(string) + "=" + a[2].(string)
		if p, ok := x.v.(*value); ok {
			if kids, ok := r.sideTables[p].(map[string]iface); ok {
				var total int64
				for key, k := range kids {
					for _, kv := range strings.Split(key, ",") {
						if kv == want {
							total += r.sideTables[k.v.(*value)].(*promCount).n
						}
					}
				}
				return total
			}
		}
		return int64(0)
	})
	i.addModel("github.com/samber/ro/ee/internal/introspection.GetFunctionDescription", "fixed description with 24 arguments (the real one parses the caller's source file)", func(fr *frame, a []value) value {
		pkg := fr.i.prog.ImportedPackage("github.com/samber/ro/ee/internal/introspection")
		_ = pkg
		args := make([]value, 24)
		for k := range args {
			args[k] = structure{"op", "file.go:1"}
		}
		var cell value = structure{"pipe", "file.go:1", args}
		return tuple{&cell, iface{}}
	})
	i.addModel("github.com/samber/ro/ee/pkg/license.IsEnterpriseEnabled", "no licence installed", func(fr *frame, a []value) value { return false })
}

// ---------------------------------------------------------------------------
// sort.Slice / sort.SliceStable contract stubs (C18): the result is ANY
// permutation of the input that is sorted w.r.t. less (every such permutation
// is explored as a separate path, n <= 4); SliceStable additionally keeps the
// original order of elements that less does not order.

func permutations(n int) [][]int {
	if n == 0 {
		return [][]int{{}}
	}
	var out [][]int
	for _, p := range permutations(n - 1) {
		for pos := 0; pos <= len(p); pos++ {
			q := append(append(append([]int{}, p[:pos]...), n-1), p[pos:]...)
			out = append(out, q)
		}
	}
	return out
}

func (i *interpreter) registerSortModels() {
	mk := func(stable bool) modelFn {
		return func(fr *frame, a []value) value {
			r := fr.t.r
			sl, ok := a[0].(iface).v.([]value)
			if !ok {
				panic(unsupported("sort.Slice on a non-slice"))
			}
			n := len(sl)
			if n <= 1 {
				return nil
			}
			if n > 4 {
				panic(unsupported("sort.Slice stub: more than 4 elements"))
			}
			perms := permutations(n)
			p := perms[r.decide("sortperm", len(perms))]
			orig := make([]value, n)
			for k := range sl {
				orig[k] = copyVal(sl[k])
			}
			for k := range sl {
				sl[k] = orig[p[k]]
			}
			less := func(x, y int) bool {
				return r.truth(call(fr.i, fr, 0, a[1], []value{x, y}), "less")
			}
			for k := 0; k+1 < n; k++ {
				if less(k+1, k) {
					r.abort(outcomeAssumeFalse, "") // not a sorted permutation
				}
				if stable && p[k] > p[k+1] && !less(k, k+1) {
					r.abort(outcomeAssumeFalse, "") // ties must keep their original order
				}
			}
			return nil
		}
	}
	i.addModel("sort.Slice", "contract stub: any permutation sorted w.r.t. less (all explored, n<=4)", mk(false))
	i.addModel("sort.SliceStable", "contract stub: the stable sorted permutation (n<=4)", mk(true))
}
