// Portions derived from golang.org/x/tools/go/ssa/interp (BSD-style licence,
// Copyright 2013 The Go Authors); restructured as a forking symbolic executor
// with explicit threads.

package main

import (
	"fmt"
	"go/token"
	"go/types"
	"runtime"
	"slices"
	"strings"

	"golang.org/x/tools/go/ssa"
)

type continuation int

const (
	kNext continuation = iota
	kReturn
	kJump
)

// State shared between all paths (immutable after load).
type interpreter struct {
	prog               *ssa.Program
	runtimeErrorString types.Type
	initFns            []*ssa.Function // package initialisers executed on every path, in order
	initedPkgs         map[*ssa.Package]bool
	allGlobals         []*ssa.Global
	models             map[string]modelFn
	harnessFilePrefix  string
	harnessPkgPath     string
	fset               *token.FileSet
}

type modelFn func(fr *frame, args []value) value

type deferred struct {
	fn    value
	args  []value
	instr *ssa.Defer
	tail  *deferred
}

type frame struct {
	i                *interpreter
	t                *thread
	caller           *frame
	fn               *ssa.Function
	block, prevBlock *ssa.BasicBlock
	env              map[ssa.Value]value // dynamic values of SSA variables
	locals           []value
	defers           *deferred
	result           value
	libctx           int8 // cached answer of libContext: 0 unknown, 1 yes, -1 no
	panicking        bool
	panic            interface{}
	phitemps         []value // temporaries for parallel phi assignment
	callpos          token.Pos
	curpos           token.Pos
}

// targetPanic: the target program panicked with value v.
type targetPanic struct {
	v value
}

func (p targetPanic) String() string { return toString(p.v) }

// pathAbort unwinds engine goroutines at the end of a path; it is never seen
// by the interpreted program's defer/recover.
type pathAbort struct{}

type unsupportedErr struct{ msg string }

func unsupported(msg string) unsupportedErr { return unsupportedErr{msg} }

var gRuntimeErrorString types.Type

// runtimePanic builds the panic value Go's run time would raise.
func runtimePanic(msg string) targetPanic {
	msg = strings.TrimPrefix(msg, "runtime error: ")
	return targetPanic{iface{gRuntimeErrorString, msg}}
}

func mustDeref(t types.Type) types.Type {
	if p, ok := t.Underlying().(*types.Pointer); ok {
		return p.Elem()
	}
	if p, ok := coreType(t).(*types.Pointer); ok {
		return p.Elem()
	}
	panic(fmt.Sprintf("mustDeref: %s is not a pointer", t))
}

func coreType(t types.Type) types.Type {
	return t.Underlying()
}

func (fr *frame) get(key ssa.Value) value {
	switch key := key.(type) {
	case nil:
		return nil
	case *ssa.Function, *ssa.Builtin:
		return key
	case *ssa.Const:
		return constValue(key)
	case *ssa.Global:
		return fr.t.r.global(key)
	}
	if r, ok := fr.env[key]; ok {
		return r
	}
	panic(fmt.Sprintf("get: no value for %T: %v", key, key.Name()))
}

func (r *run) global(g *ssa.Global) *value {
	if p, ok := r.globals[g]; ok {
		return p
	}
	if g.Pkg != nil && !r.i.initedPkgs[g.Pkg] && !globalZeroOK(g) {
		panic(unsupported(fmt.Sprintf("read of global %s of a package whose initialiser is not executed", g)))
	}
	cell := zero(mustDeref(g.Type()))
	p := &cell
	r.globals[g] = p
	r.globalCells[p] = g
	return p
}

// globals of non-initialised packages whose zero value is their real initial value.
func globalZeroOK(g *ssa.Global) bool {
	switch g.String() {
	case "context.goroutines", "sync.expunged":
		return true
	case "internal/cpu.X86", "internal/cpu.ARM64", "internal/cpu.ARM", "internal/cpu.S390X", "internal/cpu.PPC64", "internal/cpu.MIPS64X":
		// no optional CPU feature: every library takes its portable path
		return true
	}
	return false
}

func isPathAbort(p interface{}) bool {
	switch p.(type) {
	case pathAbort, unsupportedErr, engineBug:
		return true
	case runtime.Error:
		return true // host run-time error = engine bug, must not be recoverable by the target
	}
	return false
}

type engineBug struct{ msg string }

// runDefer runs a deferred call d.
// It always returns normally, but may set or clear fr.panic.
func (fr *frame) runDefer(d *deferred) {
	var ok bool
	defer func() {
		if !ok {
			p := recover()
			if isPathAbort(p) {
				panic(p)
			}
			// Deferred call created a new state of panic.
			fr.panicking = true
			fr.panic = p
		}
	}()
	call(fr.i, fr, d.instr.Pos(), d.fn, d.args)
	ok = true
}

func (fr *frame) runDefers() {
	for d := fr.defers; d != nil; d = d.tail {
		fr.runDefer(d)
	}
	fr.defers = nil
	if fr.panicking {
		panic(fr.panic) // new panic, or still panicking
	}
}

func lookupMethod(i *interpreter, typ types.Type, meth *types.Func) *ssa.Function {
	return i.prog.LookupMethod(typ, meth.Pkg(), meth.Name())
}

func (fr *frame) pos(instr ssa.Instruction) string {
	p := instr.Pos()
	if p == token.NoPos {
		p = fr.curpos
	}
	if p == token.NoPos {
		return fr.fn.String()
	}
	pp := fr.i.fset.Position(p)
	f := pp.Filename
	if i := strings.LastIndex(f, "/"); i >= 0 {
		f = f[i+1:]
	}
	return fmt.Sprintf("%s:%d", f, pp.Line)
}

// visitInstr interprets a single ssa.Instruction within the activation
// record frame.
func visitInstr(fr *frame, instr ssa.Instruction) continuation {
	r := fr.t.r
	r.steps++
	if r.steps > r.ex.maxSteps {
		r.abort(outcomeUnwind, fmt.Sprintf("step budget %d exceeded in %s", r.ex.maxSteps, fr.fn))
	}
	if p := instr.Pos(); p != token.NoPos {
		fr.curpos = p
	}
	switch instr := instr.(type) {
	case *ssa.DebugRef:
		// no-op

	case *ssa.UnOp:
		fr.env[instr] = r.unop(fr, instr, fr.get(instr.X))

	case *ssa.BinOp:
		fr.env[instr] = r.binop(instr.Op, instr.X.Type(), fr.get(instr.X), fr.get(instr.Y))

	case *ssa.Call:
		r.evalOrder(fr, instr)
		fn, args := prepareCall(fr, &instr.Call)
		fr.env[instr] = call(fr.i, fr, instr.Pos(), fn, args)

	case *ssa.ChangeInterface:
		fr.env[instr] = fr.get(instr.X)

	case *ssa.ChangeType:
		fr.env[instr] = fr.get(instr.X) // (can't fail)

	case *ssa.Convert:
		fr.env[instr] = r.conv(instr.Type(), instr.X.Type(), fr.get(instr.X))

	case *ssa.MultiConvert:
		fr.env[instr] = r.conv(instr.Type(), instr.X.Type(), fr.get(instr.X))

	case *ssa.SliceToArrayPointer:
		panic(unsupported("SliceToArrayPointer"))

	case *ssa.MakeInterface:
		fr.env[instr] = iface{t: instr.X.Type(), v: fr.get(instr.X)}

	case *ssa.Extract:
		fr.env[instr] = fr.get(instr.Tuple).(tuple)[instr.Index]

	case *ssa.Slice:
		fr.env[instr] = r.slice(fr.get(instr.X), fr.get(instr.Low), fr.get(instr.High), fr.get(instr.Max))

	case *ssa.Return:
		switch len(instr.Results) {
		case 0:
		case 1:
			fr.result = fr.get(instr.Results[0])
		default:
			var res []value
			for _, r := range instr.Results {
				res = append(res, fr.get(r))
			}
			fr.result = tuple(res)
		}
		fr.block = nil
		return kReturn

	case *ssa.RunDefers:
		fr.runDefers()

	case *ssa.Panic:
		panic(targetPanic{fr.get(instr.X)})

	case *ssa.Send:
		fr.t.chanSend(fr.get(instr.Chan).(*chanObj), copyVal(fr.get(instr.X)), fr.pos(instr))

	case *ssa.Store:
		addr := fr.get(instr.Addr).(*value)
		if addr == nil {
			panic(runtimePanic("invalid memory address or nil pointer dereference"))
		}
		r.access(fr, addr, true, instr)
		store(mustDeref(instr.Addr.Type()), addr, fr.get(instr.Val))

	case *ssa.If:
		succ := 1
		if r.truth(fr.get(instr.Cond), "if") {
			succ = 0
		}
		fr.prevBlock, fr.block = fr.block, fr.block.Succs[succ]
		return kJump

	case *ssa.Jump:
		fr.prevBlock, fr.block = fr.block, fr.block.Succs[0]
		return kJump

	case *ssa.Defer:
		fn, args := prepareCall(fr, &instr.Call)
		defers := &fr.defers
		if instr.DeferStack != nil {
			if into := fr.get(instr.DeferStack); into != nil {
				defers = into.(**deferred)
			}
		}
		*defers = &deferred{
			fn:    fn,
			args:  args,
			instr: instr,
			tail:  *defers,
		}

	case *ssa.Go:
		fn, args := prepareCall(fr, &instr.Call)
		lib := !r.i.isHarnessFn(fr.fn)
		r.spawn(fr.t, fn, args, lib, fr.pos(instr), lib && fr.i.pkgRewritten(fr.fn))

	case *ssa.MakeChan:
		n := r.concInt(fr.get(instr.Size), "chancap")
		if n < 0 {
			panic(runtimePanic("makechan: size out of range"))
		}
		fr.env[instr] = r.newChan(int(n), instr.Type().Underlying().(*types.Chan).Elem(), fr, instr)

	case *ssa.Alloc:
		var addr *value
		if instr.Heap {
			// new
			addr = new(value)
			fr.env[instr] = addr
			if r.trackRaces && r.i.isHarnessFn(fr.fn) {
				r.harnessCells[addr] = true
			}
		} else {
			// local
			addr = fr.env[instr].(*value)
		}
		*addr = zero(mustDeref(instr.Type()))

	case *ssa.MakeSlice:
		c := r.concInt(fr.get(instr.Cap), "makeslice-cap")
		l := r.concInt(fr.get(instr.Len), "makeslice-len")
		if l < 0 || c < l || c > 1<<20 {
			panic(runtimePanic("makeslice: len out of range"))
		}
		slice := make([]value, c)
		tElt := instr.Type().Underlying().(*types.Slice).Elem()
		for i := range slice {
			slice[i] = zero(tElt)
		}
		fr.env[instr] = slice[:l]

	case *ssa.MakeMap:
		fr.env[instr] = &mapObj{keyT: instr.Type().Underlying().(*types.Map).Key()}

	case *ssa.Range:
		fr.env[instr] = rangeIter(fr.get(instr.X), instr.X.Type())

	case *ssa.Next:
		fr.env[instr] = fr.get(instr.Iter).(iter).next()

	case *ssa.FieldAddr:
		p := fr.get(instr.X).(*value)
		if p == nil {
			panic(runtimePanic("invalid memory address or nil pointer dereference"))
		}
		fr.env[instr] = &(*p).(structure)[instr.Field]

	case *ssa.Field:
		fr.env[instr] = fr.get(instr.X).(structure)[instr.Field]

	case *ssa.IndexAddr:
		x := fr.get(instr.X)
		idx := r.concInt(fr.get(instr.Index), "index")
		switch x := x.(type) {
		case []value:
			if idx < 0 || idx >= int64(len(x)) {
				panic(runtimePanic(fmt.Sprintf("index out of range [%d] with length %d", idx, len(x))))
			}
			fr.env[instr] = &x[idx]
		case *value: // *array
			if x == nil {
				panic(runtimePanic("invalid memory address or nil pointer dereference"))
			}
			a := (*x).(array)
			if idx < 0 || idx >= int64(len(a)) {
				panic(runtimePanic(fmt.Sprintf("index out of range [%d] with length %d", idx, len(a))))
			}
			fr.env[instr] = &a[idx]
		default:
			panic(fmt.Sprintf("unexpected x type in IndexAddr: %T", x))
		}

	case *ssa.Index:
		x := fr.get(instr.X)
		idx := r.concInt(fr.get(instr.Index), "index")
		switch x := x.(type) {
		case array:
			if idx < 0 || idx >= int64(len(x)) {
				panic(runtimePanic(fmt.Sprintf("index out of range [%d] with length %d", idx, len(x))))
			}
			fr.env[instr] = x[idx]
		case string:
			if idx < 0 || idx >= int64(len(x)) {
				panic(runtimePanic(fmt.Sprintf("index out of range [%d] with length %d", idx, len(x))))
			}
			fr.env[instr] = x[idx]
		default:
			panic(fmt.Sprintf("unexpected x type in Index: %T", x))
		}

	case *ssa.Lookup:
		if s, ok := fr.get(instr.X).(string); ok {
			idx := r.concInt(fr.get(instr.Index), "index")
			if idx < 0 || idx >= int64(len(s)) {
				panic(runtimePanic(fmt.Sprintf("index out of range [%d] with length %d", idx, len(s))))
			}
			fr.env[instr] = s[idx]
		} else {
			fr.env[instr] = r.lookup(instr, fr.get(instr.X), fr.get(instr.Index))
		}

	case *ssa.MapUpdate:
		m := fr.get(instr.Map).(*mapObj)
		r.mapInsert(m, copyVal(fr.get(instr.Key)), copyVal(fr.get(instr.Value)))

	case *ssa.TypeAssert:
		fr.env[instr] = typeAssert(fr.i, instr, fr.get(instr.X).(iface))

	case *ssa.MakeClosure:
		var bindings []value
		for _, binding := range instr.Bindings {
			bindings = append(bindings, fr.get(binding))
		}
		fr.env[instr] = &closure{instr.Fn.(*ssa.Function), bindings}

	case *ssa.Phi:
		panic("unreachable: phis are processed at block entry")

	case *ssa.Select:
		fr.env[instr] = fr.t.doSelect(fr, instr)

	default:
		panic(unsupported(fmt.Sprintf("instruction %T", instr)))
	}
	return kNext
}

func prepareCall(fr *frame, call *ssa.CallCommon) (fn value, args []value) {
	v := fr.get(call.Value)
	if call.Method == nil {
		// Function call.
		fn = v
	} else {
		// Interface method invocation.
		recv := v.(iface)
		if recv.t == nil {
			panic(runtimePanic("invalid memory address or nil pointer dereference"))
		}
		if f := lookupMethod(fr.i, recv.t, call.Method); f == nil {
			panic(fmt.Sprintf("method set for dynamic type %v does not contain %s", recv.t, call.Method))
		} else {
			fn = f
		}
		args = append(args, recv.v)
	}
	for _, arg := range call.Args {
		args = append(args, fr.get(arg))
	}
	return
}

func call(i *interpreter, caller *frame, callpos token.Pos, fn value, args []value) value {
	switch fn := fn.(type) {
	case *ssa.Function:
		if fn == nil {
			panic(runtimePanic("invalid memory address or nil pointer dereference")) // nil of func type
		}
		return callSSA(i, caller, callpos, fn, args, nil)
	case *closure:
		if fn == nil {
			panic(runtimePanic("invalid memory address or nil pointer dereference"))
		}
		return callSSA(i, caller, callpos, fn.Fn, args, fn.Env)
	case *ssa.Builtin:
		return callBuiltin(caller, callpos, fn, args)
	case *nativeFunc:
		if fn == nil {
			panic(runtimePanic("invalid memory address or nil pointer dereference"))
		}
		return fn.fn(caller, args)
	case nil:
		panic(runtimePanic("invalid memory address or nil pointer dereference"))
	}
	panic(fmt.Sprintf("cannot call %T", fn))
}

func (i *interpreter) modelFor(fn *ssa.Function) modelFn {
	name := fn.String()
	if m, ok := i.models[name]; ok {
		return m
	}
	if o := fn.Origin(); o != nil {
		if m, ok := i.models[o.String()]; ok {
			return m
		}
	}
	return nil
}

func callSSA(i *interpreter, caller *frame, callpos token.Pos, fn *ssa.Function, args []value, env []value) value {
	fr := &frame{
		i:       i,
		t:       caller.t,
		caller:  caller,
		fn:      fn,
		callpos: callpos,
	}
	if m := i.modelFor(fn); m != nil {
		return m(fr, args)
	}
	if fn.Blocks == nil {
		panic(unsupported("no code and no model for function: " + fn.String()))
	}
	r := fr.t.r
	r.noteFn(fn)
	fr.t.depth++
	if fr.t.depth > r.ex.maxDepth {
		r.abort(outcomeUnwind, "call depth exceeded in "+fn.String())
	}
	defer func() { fr.t.depth-- }()

	// generic function body?
	if fn.TypeParams().Len() > 0 && len(fn.TypeArgs()) == 0 {
		panic(unsupported("uninstantiated generic function " + fn.String()))
	}

	saved := fr.t.top
	fr.t.top = fr
	defer func() { fr.t.top = saved }()

	fr.env = make(map[ssa.Value]value)
	fr.block = fn.Blocks[0]
	fr.locals = make([]value, len(fn.Locals))
	for i, l := range fn.Locals {
		fr.locals[i] = zero(mustDeref(l.Type()))
		fr.env[l] = &fr.locals[i]
	}
	for i, p := range fn.Params {
		fr.env[p] = args[i]
	}
	for i, fv := range fn.FreeVars {
		fr.env[fv] = env[i]
	}
	for fr.block != nil {
		runFrame(fr)
	}
	return fr.result
}

func runFrame(fr *frame) {
	defer func() {
		if fr.block == nil {
			return // normal return
		}
		p := recover()
		if isPathAbort(p) {
			panic(p)
		}
		if s, ok := p.(string); ok {
			// the engine itself panicked with a message: engine bug, not a target panic
			panic(engineBug{s + " in " + fr.fn.String()})
		}
		fr.panicking = true
		fr.panic = p
		if fr.t.lastPanicSite == "" {
			fr.t.lastPanicSite = fr.fn.String() + " " + fr.i.posStr(fr.curpos)
		}
		fr.runDefers()
		fr.t.lastPanicSite = ""
		fr.block = fr.fn.Recover
	}()

	for {
		nonPhis := executePhis(fr)
		for _, instr := range nonPhis {
			if visitInstr(fr, instr) == kReturn {
				return
			}
		}
	}
}

func executePhis(fr *frame) []ssa.Instruction {
	firstNonPhi := -1
	for i, instr := range fr.block.Instrs {
		if _, ok := instr.(*ssa.Phi); !ok {
			firstNonPhi = i
			break
		}
	}
	nonPhis := fr.block.Instrs[firstNonPhi:]
	if firstNonPhi > 0 {
		phis := fr.block.Instrs[:firstNonPhi]
		predIndex := slices.Index(fr.block.Preds, fr.prevBlock)
		fr.phitemps = fr.phitemps[:0]
		for _, phi := range phis {
			phi := phi.(*ssa.Phi)
			fr.phitemps = append(fr.phitemps, fr.get(phi.Edges[predIndex]))
		}
		for i, phi := range phis {
			fr.env[phi.(*ssa.Phi)] = fr.phitemps[i]
		}
	}
	return nonPhis
}

// doRecover implements the recover() built-in.
func doRecover(caller *frame) value {
	if caller != nil && !caller.panicking &&
		caller.caller != nil && caller.caller.panicking {
		caller.caller.panicking = false
		p := caller.caller.panic
		caller.caller.panic = nil
		switch p := p.(type) {
		case targetPanic:
			return p.v
		default:
			panic(engineBug{fmt.Sprintf("unexpected panic type %T in target call to recover(): %v", p, p)})
		}
	}
	return iface{}
}

// checkInterface checks that the method set of x implements the interface itype.
func checkInterface(i *interpreter, itype *types.Interface, x iface) string {
	if meth, _ := types.MissingMethod(x.t, itype, true); meth != nil {
		return fmt.Sprintf("interface conversion: %v is not %v: missing method %s",
			x.t, itype, meth.Name())
	}
	return "" // ok
}

func (i *interpreter) isHarnessFn(fn *ssa.Function) bool {
	for fn.Parent() != nil {
		fn = fn.Parent()
	}
	if o := fn.Origin(); o != nil {
		fn = o
	}
	p := fn.Pos()
	if p == token.NoPos {
		if fn.Synthetic != "" && strings.HasPrefix(fn.Name(), "vh") {
			return true
		}
		return false
	}
	f := i.fset.Position(p).Filename
	if k := strings.LastIndex(f, "/"); k >= 0 {
		f = f[k+1:]
	}
	return strings.HasPrefix(f, i.harnessFilePrefix)
}

func (i *interpreter) posStr(p token.Pos) string {
	if p == token.NoPos {
		return ""
	}
	pp := i.fset.Position(p)
	f := pp.Filename
	if k := strings.LastIndex(f, "/"); k >= 0 {
		f = f[k+1:]
	}
	return fmt.Sprintf("%s:%d", f, pp.Line)
}

// pkgRewritten: native replays compile this function's package against the sync/atomic/time shims.
func (i *interpreter) pkgRewritten(fn *ssa.Function) bool {
	for fn.Parent() != nil {
		fn = fn.Parent()
	}
	pkg := fn.Pkg
	if pkg == nil {
		if o := fn.Origin(); o != nil {
			pkg = o.Pkg
		}
	}
	if pkg == nil {
		return false
	}
	p := pkg.Pkg.Path()
	return strings.HasPrefix(p, "github.com/samber/ro") && !strings.Contains(p, "/ee/pkg/") && !strings.Contains(p, "/ee/internal/")
}

// countable: fr is the frame of a modelled sync / atomic function; walk up through frames of the
// standard sync packages to the first real caller.
func (i *interpreter) countable(fr *frame) bool {
	c := fr.caller
	for c != nil && c.fn != nil {
		fn := c.fn
		pkg := fn.Pkg
		if pkg == nil {
			if o := fn.Origin(); o != nil {
				pkg = o.Pkg
			}
		}
		if pkg != nil {
			if p := pkg.Pkg.Path(); p == "sync" || p == "sync/atomic" {
				c = c.caller
				continue
			}
		}
		return i.pkgRewritten(fn)
	}
	return false
}
