package main

// Executor threads: every Go goroutine of the interpreted program is a host
// goroutine, but exactly one of them holds the baton at any time.  Scheduling
// points are the visible operations; the choice of the next thread is a
// decision variable of the path, bounded by a preemption budget.

import (
	"fmt"
	"go/types"
	"runtime"
	"strings"

	"golang.org/x/tools/go/ssa"
)

const (
	tRunnable = iota
	tBlocked
	tDone
)

type thread struct {
	id      int
	r       *run
	resume  chan struct{}
	state   int
	canRun  func() bool
	waitOn  string // description of the blocking site
	lib     bool   // started by library code (not by the harness)
	vc      vclock
	top     *frame
	depth   int
	quiesce bool
	origin  string
	// channel rendezvous results
	chanDone      bool
	chanVal       value
	chanOK        bool
	selIdx        int
	selCases      []*selCase
	spins         int
	lastPanicSite string
	hpoints       int      // harness-level scheduling points passed (vGo, vYield, vQuiesce)
	lpoints       int      // library-level points passed that the native sync/atomic shim reproduces
	lsites        []string // where the first counted points were (diagnostics of replay drift)
}

type switchEv struct {
	From   int    `json:"from"`
	H      int    `json:"h"`
	L      int    `json:"l"`
	Reason string `json:"reason"`
	To     int    `json:"to"`
}

func (r *run) newThread(parent *thread, lib bool, origin string) *thread {
	t := &thread{id: len(r.threads), r: r, resume: make(chan struct{}, 1), lib: lib, origin: origin}
	if parent != nil {
		t.vc = parent.vc.clone()
		parent.vc.tick(parent.id)
	}
	t.vc.tick(t.id)
	r.threads = append(r.threads, t)
	return t
}

// main is the body of the host goroutine backing thread t.
func (t *thread) main(body func(fr *frame)) {
	r := t.r
	defer r.wg.Done()
	defer func() {
		p := recover()
		switch p := p.(type) {
		case nil:
			return
		case pathAbort:
			return
		case unsupportedErr:
			r.setOutcome(outcomeUnsupported, p.msg)
		case engineBug:
			r.setOutcome(outcomeBug, p.msg)
		case targetPanic:
			// a panic left the top frame of a thread: process crash
			site := ""
			if t.top != nil && t.top.fn != nil {
				site = t.top.fn.String()
			}
			if t.lastPanicSite != "" {
				site = t.lastPanicSite
			}
			r.setViolation("crash", fmt.Sprintf("unrecovered panic in thread %d (%s): %s", t.id, t.origin, r.panicString(p.v)), site)
		case runtime.Error:
			buf := make([]byte, 4096)
			n := runtime.Stack(buf, false)
			r.setOutcome(outcomeBug, fmt.Sprintf("host runtime error: %v\n%s", p, buf[:n]))
		default:
			r.setOutcome(outcomeBug, fmt.Sprintf("unexpected host panic: %v", p))
		}
		r.killOnce.Do(func() { close(r.kill) })
	}()
	t.park()
	root := &frame{i: r.i, t: t}
	t.top = root
	body(root)
	// thread finished normally
	t.state = tDone
	if t.id == 0 {
		// harness returned: the path is complete
		r.killOnce.Do(func() { close(r.kill) })
		return
	}
	t.vc.tick(t.id)
	next := r.pickNext(t)
	if next == nil {
		if r.threads[0].state != tDone {
			r.deadlock()
		}
		r.killOnce.Do(func() { close(r.kill) })
		return
	}
	r.cur = next
	r.schedLog = append(r.schedLog, next.id)
	r.switches = append(r.switches, switchEv{t.id, t.hpoints, t.lpoints, "end", next.id})
	next.resume <- struct{}{}
}

func (r *run) setOutcome(k outcomeKind, msg string) {
	if r.outcome == outcomeOK && r.outcomeMsg == "" {
		r.outcome = k
		r.outcomeMsg = msg
	}
}

func (r *run) setViolation(kind, msg, site string) {
	if r.outcome == outcomeOK && r.outcomeMsg == "" {
		r.viol = &violation{Kind: kind, Msg: msg, Site: site, Harness: r.ex.name}
		r.outcome = outcomeViolation
		r.outcomeMsg = kind + ": " + msg
	}
}

func (r *run) panicString(v value) string {
	if itf, ok := v.(iface); ok {
		if s, ok := itf.v.(string); ok {
			return fmt.Sprintf("%s(%q)", typeShort(itf.t), s)
		}
		return typeShort(itf.t)
	}
	return toString(v)
}

func typeShort(t types.Type) string {
	if t == nil {
		return "nil"
	}
	s := t.String()
	s = strings.ReplaceAll(s, "github.com/samber/ro", "ro")
	return s
}

// park waits for the baton.
func (t *thread) park() {
	select {
	case <-t.resume:
	case <-t.r.kill:
		panic(pathAbort{})
	}
}

func (t *thread) enabled() bool {
	switch t.state {
	case tRunnable:
		return !t.quiesce
	case tBlocked:
		return t.canRun != nil && t.canRun()
	}
	return false
}

// switchTo hands the baton to u and parks t until it is rescheduled.
func (t *thread) switchTo(u *thread, reason string) {
	if u == t {
		return
	}
	t.r.cur = u
	t.r.schedLog = append(t.r.schedLog, u.id)
	t.r.switches = append(t.r.switches, switchEv{t.id, t.hpoints, t.lpoints, reason, u.id})
	u.resume <- struct{}{}
	t.park()
}

// schedPoint is called before a visible operation: another enabled thread may
// be scheduled first (one preemption).
// schedPointAt is a scheduling point inside a modelled sync / sync/atomic operation called
// from frame fr.  If the operation is called (possibly through the standard sync code) by a
// package that native replays compile against the shims, the point is counted: a preemption
// there can be placed natively ("lpreempt"); otherwise it is recorded as "cpreempt".
func (t *thread) schedPointAt(fr *frame, kind string) {
	if fr != nil && fr.i.countable(fr) {
		t.lpoints++
		if len(t.lsites) < 120 {
			t.lsites = append(t.lsites, kind+"@"+callerSite(fr))
		}
		t.schedPointK(kind, true)
		return
	}
	t.schedPointK(kind, false)
}

func (t *thread) schedPoint(kind string) { t.schedPointK(kind, false) }

func (t *thread) schedPointK(kind string, counted bool) {
	r := t.r
	if len(r.threads) == 1 {
		return
	}
	if r.preemptions >= r.maxPreempt {
		return
	}
	var others []*thread
	for _, u := range r.threads {
		if u != t && u.enabled() {
			others = append(others, u)
		}
	}
	if len(others) == 0 {
		return
	}
	r.ex.stats.schedPoints++
	c := r.decide("sched", 1+len(others))
	if c == 0 {
		return
	}
	r.preemptions++
	switch {
	case kind == "go":
		t.switchTo(others[c-1], "go")
	case counted:
		t.switchTo(others[c-1], "lpreempt")
	default:
		t.switchTo(others[c-1], "cpreempt")
	}
}

// yield gives other threads a chance without costing a preemption (Gosched,
// vYield): any enabled thread, including t, may run next.
func (t *thread) yield() {
	r := t.r
	var en []*thread
	en = append(en, t)
	for _, u := range r.threads {
		if u != t && u.enabled() {
			en = append(en, u)
		}
	}
	if len(en) == 1 {
		return
	}
	c := r.decide("yield", len(en))
	if c != 0 {
		t.switchTo(en[c], "yield")
	}
}

// block parks t until canRun holds; other threads run meanwhile.
func (t *thread) block(canRun func() bool, desc string) {
	r := t.r
	for !canRun() {
		t.state = tBlocked
		t.canRun = canRun
		t.waitOn = desc
		next := r.pickNext(t)
		if next == nil {
			r.deadlock()
		}
		if next != t {
			t.switchTo(next, "block")
		}
		t.state = tRunnable
		t.canRun = nil
	}
	t.state = tRunnable
	t.canRun = nil
	t.waitOn = ""
}

// pickNext chooses the thread to run when `from` cannot continue (blocked or
// done).  The choice among several enabled threads is a free decision.
func (r *run) pickNext(from *thread) *thread {
	fired := 0
	for {
		var en []*thread
		for _, u := range r.threads {
			if u.enabled() {
				en = append(en, u)
			}
		}
		if len(en) > 0 {
			c := r.decide("pick", len(en))
			return en[c]
		}
		// nobody enabled: a quiescing harness thread resumes
		for _, u := range r.threads {
			if u.state == tRunnable && u.quiesce {
				u.quiesce = false
				return u
			}
		}
		// time may pass: fire the earliest pending timer
		if fired < 32 && r.fireNextTimer() {
			fired++
			continue
		}
		// (a ticker that keeps firing while nothing else can ever run is a deadlock, not progress)
		return nil
	}
}

func (r *run) deadlock() {
	var sb strings.Builder
	site := ""
	for _, u := range r.threads {
		if u.state == tBlocked {
			fmt.Fprintf(&sb, "[thread %d (%s) blocked at %s] ", u.id, u.origin, u.waitOn)
			if site == "" {
				site = u.waitOn
			}
		}
	}
	r.violate("deadlock", "no thread can run: "+sb.String(), site)
}

// spawn starts a new thread running fn(args).
func (r *run) spawn(parent *thread, fn value, args []value, lib bool, origin string, counted bool) *thread {
	t := r.newThread(parent, lib, origin)
	r.wg.Add(1)
	go t.main(func(fr *frame) {
		call(r.i, fr, 0, fn, args)
	})
	switch {
	case !lib:
		parent.schedPoint("go")
	case counted:
		parent.lpoints++
		if len(parent.lsites) < 120 {
			parent.lsites = append(parent.lsites, "go@"+origin)
		}
		parent.schedPointK("lgo", true)
	default:
		parent.schedPoint("lgo")
	}
	return t
}

// quiesceWait: the calling (harness) thread waits until no other thread is enabled.
func (t *thread) quiesceWait() {
	r := t.r
	for {
		any := false
		for _, u := range r.threads {
			if u != t && u.enabled() {
				any = true
			}
		}
		if !any {
			// quiescence is a harness-level synchronisation point: everything the
			// other threads did so far happens-before what the harness does next
			for _, u := range r.threads {
				if u != t {
					t.vc.join(u.vc)
				}
			}
			return
		}
		t.quiesce = true
		next := r.pickNext(t)
		if next == nil || next == t {
			t.quiesce = false
			return
		}
		t.switchTo(next, "quiesce")
		t.quiesce = false
	}
}

// ---------------------------------------------------------------------------
// channels

func (r *run) newChan(capacity int, elem types.Type, fr *frame, instr ssa.Instruction) *chanObj {
	r.chanN++
	c := &chanObj{id: r.chanN, cap: capacity, elemT: elem}
	if fr != nil {
		c.harness = r.i.isHarnessFn(fr.fn)
		if instr != nil {
			c.site = fr.pos(instr)
		}
	}
	return c
}

type selCase struct {
	ch   *chanObj
	send bool
	val  value
}

func (c *chanObj) hasRecvWaiter() bool {
	for _, t := range c.recvWait {
		if t.state == tBlocked && !t.chanDone {
			return true
		}
	}
	return false
}

func (c *chanObj) hasSendWaiter() bool {
	for _, t := range c.sendWait {
		if t.state == tBlocked && !t.chanDone {
			return true
		}
	}
	return false
}

func removeThread(l []*thread, t *thread) []*thread {
	out := l[:0]
	for _, u := range l {
		if u != t {
			out = append(out, u)
		}
	}
	return out
}

func (c *chanObj) canSend() bool {
	if c == nil {
		return false
	}
	return c.closed || len(c.buf) < c.cap || c.hasRecvWaiter()
}

func (c *chanObj) canRecv() bool {
	if c == nil {
		return false
	}
	return len(c.buf) > 0 || c.closed || c.hasSendWaiter()
}

// trySend performs a send if possible without blocking.
func (t *thread) trySend(c *chanObj, v value) bool {
	if c.closed {
		panic(targetPanic{t.r.errorValue("send on closed channel")})
	}
	// direct hand-off to a waiting receiver
	for _, u := range c.recvWait {
		if u.state == tBlocked && !u.chanDone {
			u.completeRecv(c, v, true, t)
			return true
		}
	}
	if len(c.buf) < c.cap {
		c.buf = append(c.buf, v)
		c.sendVC = append(c.sendVC, t.vc.clone())
		t.vc.tick(t.id)
		c.nsent++
		return true
	}
	return false
}

// completeRecv finishes the receive of blocked thread u (plain or select) with v.
func (u *thread) completeRecv(c *chanObj, v value, ok bool, sender *thread) {
	u.chanDone = true
	u.chanVal = v
	u.chanOK = ok
	if u.selCases != nil {
		for i, sc := range u.selCases {
			if sc.ch == c && !sc.send {
				u.selIdx = i
				break
			}
		}
	}
	if sender != nil {
		// synchronous rendezvous: both directions are ordered
		u.vc.join(sender.vc)
		sender.vc.join(u.vc)
		sender.vc.tick(sender.id)
	}
	u.unregisterWait()
}

func (u *thread) completeSend(c *chanObj, receiver *thread) {
	u.chanDone = true
	if u.selCases != nil {
		for i, sc := range u.selCases {
			if sc.ch == c && sc.send {
				u.selIdx = i
				break
			}
		}
	}
	if receiver != nil {
		receiver.vc.join(u.vc)
		u.vc.join(receiver.vc)
	}
	u.unregisterWait()
}

func (u *thread) unregisterWait() {
	for _, sc := range u.selCases {
		if sc.ch == nil {
			continue
		}
		sc.ch.recvWait = removeThread(sc.ch.recvWait, u)
		sc.ch.sendWait = removeThread(sc.ch.sendWait, u)
	}
}

// tryRecv performs a receive if possible without blocking.
func (t *thread) tryRecv(c *chanObj) (value, bool, bool) {
	if len(c.buf) > 0 {
		v := c.buf[0]
		c.buf = c.buf[1:]
		if len(c.sendVC) > 0 {
			t.vc.join(c.sendVC[0])
			c.sendVC = c.sendVC[1:]
		}
		c.nrecv++
		// a blocked sender can now move its value into the buffer
		for _, u := range c.sendWait {
			if u.state == tBlocked && !u.chanDone {
				val := u.pendingSendVal(c)
				c.buf = append(c.buf, val)
				c.sendVC = append(c.sendVC, u.vc.clone())
				u.completeSend(c, nil)
				break
			}
		}
		return v, true, true
	}
	for _, u := range c.sendWait {
		if u.state == tBlocked && !u.chanDone {
			val := u.pendingSendVal(c)
			u.completeSend(c, t)
			c.nrecv++
			return val, true, true
		}
	}
	if c.closed {
		t.vc.join(c.closeVC)
		return nil, false, true
	}
	return nil, false, false
}

func (u *thread) pendingSendVal(c *chanObj) value {
	for _, sc := range u.selCases {
		if sc.ch == c && sc.send {
			return sc.val
		}
	}
	panic("pendingSendVal: no send case")
}

func (t *thread) chanSend(c *chanObj, v value, site string) {
	t.schedPoint("send")
	if c == nil {
		t.block(func() bool { return false }, "send on nil channel at "+site)
	}
	if t.trySend(c, v) {
		return
	}
	// block until a receiver (or buffer space) takes the value
	t.chanDone = false
	t.selCases = []*selCase{{ch: c, send: true, val: v}}
	c.sendWait = append(c.sendWait, t)
	t.block(func() bool { return t.chanDone || c.closed }, "chan send at "+site)
	done := t.chanDone
	t.unregisterWait()
	t.selCases = nil
	if !done {
		panic(targetPanic{t.r.errorValue("send on closed channel")})
	}
}

func (t *thread) chanRecv(c *chanObj, site string) (value, bool) {
	t.schedPoint("recv")
	if c == nil {
		t.block(func() bool { return false }, "receive from nil channel at "+site)
	}
	if v, ok, done := t.tryRecv(c); done {
		return v, ok
	}
	t.chanDone = false
	t.selCases = []*selCase{{ch: c}}
	c.recvWait = append(c.recvWait, t)
	t.block(func() bool { return t.chanDone || c.closed }, "chan receive at "+site)
	done := t.chanDone
	t.unregisterWait()
	t.selCases = nil
	if done {
		return t.chanVal, t.chanOK
	}
	// closed while waiting
	t.vc.join(c.closeVC)
	return nil, false
}

func (t *thread) chanClose(c *chanObj) {
	t.schedPoint("close")
	if c == nil {
		panic(targetPanic{t.r.errorValue("close of nil channel")})
	}
	if c.closed {
		panic(targetPanic{t.r.errorValue("close of closed channel")})
	}
	c.closed = true
	c.closeVC = t.vc.clone()
	t.vc.tick(t.id)
}

// errorValue builds a runtime.Error-like panic value.
func (r *run) errorValue(msg string) value {
	return iface{gRuntimeErrorString, msg}
}

func (t *thread) doSelect(fr *frame, instr *ssa.Select) value {
	t.schedPoint("select")
	var cases []*selCase
	for _, st := range instr.States {
		sc := &selCase{}
		if ch := fr.get(st.Chan); ch != nil {
			sc.ch = ch.(*chanObj)
		}
		if st.Dir == types.SendOnly {
			sc.send = true
			sc.val = copyVal(fr.get(st.Send))
		}
		cases = append(cases, sc)
	}
	result := func(chosen int, recv value, recvOK bool) value {
		r := tuple{chosen, recvOK}
		for i, st := range instr.States {
			if st.Dir == types.RecvOnly {
				var v value
				if i == chosen && recvOK {
					v = recv
				} else {
					v = zero(st.Chan.Type().Underlying().(*types.Chan).Elem())
				}
				r = append(r, v)
			}
		}
		return r
	}
	ready := func() []int {
		var rd []int
		for i, sc := range cases {
			if sc.ch == nil {
				continue
			}
			if sc.send && sc.ch.canSend() || !sc.send && sc.ch.canRecv() {
				rd = append(rd, i)
			}
		}
		return rd
	}
	for {
		rd := ready()
		if len(rd) > 0 {
			k := rd[t.r.decide("select", len(rd))]
			sc := cases[k]
			if sc.send {
				if !t.trySend(sc.ch, sc.val) {
					panic("select: send case not ready")
				}
				return result(k, nil, false)
			}
			v, ok, done := t.tryRecv(sc.ch)
			if !done {
				panic("select: recv case not ready")
			}
			return result(k, v, ok)
		}
		if !instr.Blocking {
			return result(-1, nil, false)
		}
		// block on all cases
		t.chanDone = false
		t.selCases = cases
		for _, sc := range cases {
			if sc.ch == nil {
				continue
			}
			if sc.send {
				sc.ch.sendWait = append(sc.ch.sendWait, t)
			} else {
				sc.ch.recvWait = append(sc.ch.recvWait, t)
			}
		}
		anyClosed := func() bool {
			for _, sc := range cases {
				if sc.ch != nil && sc.ch.closed {
					return true
				}
			}
			return false
		}
		t.block(func() bool { return t.chanDone || anyClosed() }, "select at "+fr.pos(instr))
		done := t.chanDone
		t.unregisterWait()
		t.selCases = nil
		if done {
			k := t.selIdx
			if cases[k].send {
				return result(k, nil, false)
			}
			return result(k, t.chanVal, t.chanOK)
		}
		// a channel was closed: loop to pick it up through ready()
	}
}
