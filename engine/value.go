// Portions derived from golang.org/x/tools/go/ssa/interp (BSD-style licence,
// Copyright 2013 The Go Authors).

package main

// Values of the symbolic interpreter.
//
// Concrete scalars are native Go values exactly as in go/ssa/interp (bool,
// int, int8..int64, uint..uint64, uintptr, float32/64, string).  A symbolic
// scalar is a *Term (Bool or bit-vector of the Go width).  The heap is concrete
// in shape: pointers are *value, structs are []value, slices are []value,
// closures, interfaces, maps and channels are ordinary references.

import (
	"bytes"
	"fmt"
	"go/types"

	"golang.org/x/tools/go/ssa"
)

type value interface{}

type tuple []value

type array []value

type iface struct {
	t types.Type // never an "untyped" type
	v value
}

type structure []value

type iter interface {
	next() tuple
}

type closure struct {
	Fn  *ssa.Function
	Env []value
}

// boundMethod is produced by models that need a Go-level callable.
type nativeFunc struct {
	name string
	fn   func(fr *frame, args []value) value
}

type bad struct{}

// opaque is a value whose structure the engine does not model (results of
// stubs); it can be copied, compared by identity and passed around.
type opaque struct {
	id   int
	desc string
}

// mapObj is an insertion-ordered association list; key comparison may be
// symbolic, in which case lookups fork on equality.
type mapObj struct {
	keyT    types.Type
	entries []*mapEntry
}

type mapEntry struct {
	key, val value
}

// chanObj models a Go channel.
type chanObj struct {
	id     int
	cap    int
	buf    []value
	closed bool
	elemT  types.Type
	// HB bookkeeping
	sendVC   []vclock // vector clock attached to each buffered element
	closeVC  vclock
	recvVCs  []vclock // k-th receive completion clocks (for cap-bounded edge)
	nrecv    int
	nsent    int
	harness  bool
	site     string
	recvWait []*thread // threads blocked in receive (incl. select)
	sendWait []*thread
}

func sameType(x, y types.Type) bool {
	if x == nil {
		return y == nil
	}
	return y != nil && types.Identical(x, y)
}

func load(T types.Type, addr *value) value {
	switch T := T.Underlying().(type) {
	case *types.Struct:
		v := (*addr).(structure)
		a := make(structure, len(v))
		for i := range a {
			a[i] = load(T.Field(i).Type(), &v[i])
		}
		return a
	case *types.Array:
		v := (*addr).(array)
		a := make(array, len(v))
		for i := range a {
			a[i] = load(T.Elem(), &v[i])
		}
		return a
	default:
		return *addr
	}
}

func store(T types.Type, addr *value, v value) {
	switch T := T.Underlying().(type) {
	case *types.Struct:
		lhs := (*addr).(structure)
		rhs := v.(structure)
		for i := range lhs {
			store(T.Field(i).Type(), &lhs[i], rhs[i])
		}
	case *types.Array:
		lhs := (*addr).(array)
		rhs := v.(array)
		for i := range lhs {
			store(T.Elem(), &lhs[i], rhs[i])
		}
	default:
		*addr = v
	}
}

// copyVal makes an unaliased copy of an aggregate value.
func copyVal(v value) value {
	switch v := v.(type) {
	case structure:
		a := make(structure, len(v))
		for i := range v {
			a[i] = copyVal(v[i])
		}
		return a
	case array:
		a := make(array, len(v))
		for i := range v {
			a[i] = copyVal(v[i])
		}
		return a
	}
	return v
}

func writeValue(buf *bytes.Buffer, v value) {
	switch v := v.(type) {
	case nil, bool, int, int8, int16, int32, int64, uint, uint8, uint16, uint32, uint64, uintptr, float32, float64, complex64, complex128, string:
		fmt.Fprintf(buf, "%v", v)
	case *Term:
		buf.WriteString(v.String())
	case *mapObj:
		buf.WriteString("map[")
		if v != nil {
			for i, e := range v.entries {
				if i > 0 {
					buf.WriteString(" ")
				}
				writeValue(buf, e.key)
				buf.WriteString(":")
				writeValue(buf, e.val)
			}
		}
		buf.WriteString("]")
	case *chanObj:
		if v == nil {
			buf.WriteString("chan<nil>")
		} else {
			fmt.Fprintf(buf, "chan#%d", v.id)
		}
	case *value:
		if v == nil {
			buf.WriteString("<nil>")
		} else {
			fmt.Fprintf(buf, "%p", v)
		}
	case iface:
		if v.t == nil {
			buf.WriteString("<nil iface>")
			return
		}
		fmt.Fprintf(buf, "(%s, ", v.t)
		writeValue(buf, v.v)
		buf.WriteString(")")
	case structure:
		buf.WriteString("{")
		for i, e := range v {
			if i > 0 {
				buf.WriteString(" ")
			}
			writeValue(buf, e)
		}
		buf.WriteString("}")
	case array:
		buf.WriteString("[")
		for i, e := range v {
			if i > 0 {
				buf.WriteString(" ")
			}
			writeValue(buf, e)
		}
		buf.WriteString("]")
	case []value:
		buf.WriteString("[")
		for i, e := range v {
			if i > 0 {
				buf.WriteString(" ")
			}
			writeValue(buf, e)
		}
		buf.WriteString("]")
	case *ssa.Function, *ssa.Builtin, *closure:
		fmt.Fprintf(buf, "%p", v) // (an address)
	case tuple:
		buf.WriteString("(")
		for i, e := range v {
			if i > 0 {
				buf.WriteString(", ")
			}
			writeValue(buf, e)
		}
		buf.WriteString(")")
	case opaque:
		fmt.Fprintf(buf, "<opaque %s#%d>", v.desc, v.id)
	default:
		fmt.Fprintf(buf, "<%T>", v)
	}
}

func toString(v value) string {
	var b bytes.Buffer
	writeValue(&b, v)
	return b.String()
}

// basicWidth returns (width, signed, ok) for integer-like basic types.
func basicWidth(t types.Type) (int, bool, bool) {
	b, ok := t.Underlying().(*types.Basic)
	if !ok {
		return 0, false, false
	}
	switch b.Kind() {
	case types.Bool, types.UntypedBool:
		return 0, false, true
	case types.Int, types.Int64, types.UntypedInt:
		return 64, true, true
	case types.Int8:
		return 8, true, true
	case types.Int16:
		return 16, true, true
	case types.Int32, types.UntypedRune:
		return 32, true, true
	case types.Uint, types.Uint64, types.Uintptr:
		return 64, false, true
	case types.Uint8:
		return 8, false, true
	case types.Uint16:
		return 16, false, true
	case types.Uint32:
		return 32, false, true
	}
	return 0, false, false
}

// toTerm converts a concrete scalar (or passes a term) to a term of type t.
func (r *run) toTerm(t types.Type, v value) *Term {
	switch v := v.(type) {
	case *Term:
		return v
	case bool:
		return r.tt.Bool(v)
	}
	w, _, ok := basicWidth(t)
	if !ok {
		panic(unsupported(fmt.Sprintf("toTerm: type %s value %T", t, v)))
	}
	return r.tt.Const(w, scalarBits(v))
}

func scalarBits(v value) uint64 {
	switch v := v.(type) {
	case int:
		return uint64(v)
	case int8:
		return uint64(v)
	case int16:
		return uint64(v)
	case int32:
		return uint64(v)
	case int64:
		return uint64(v)
	case uint:
		return uint64(v)
	case uint8:
		return uint64(v)
	case uint16:
		return uint64(v)
	case uint32:
		return uint64(v)
	case uint64:
		return v
	case uintptr:
		return uint64(v)
	case bool:
		if v {
			return 1
		}
		return 0
	}
	panic(unsupported(fmt.Sprintf("scalarBits: %T", v)))
}

// fromBits builds the concrete Go scalar of basic type t from bits.
func fromBits(t types.Type, bits uint64) value {
	b := t.Underlying().(*types.Basic)
	switch b.Kind() {
	case types.Bool, types.UntypedBool:
		return bits != 0
	case types.Int, types.UntypedInt:
		return int(bits)
	case types.Int8:
		return int8(bits)
	case types.Int16:
		return int16(bits)
	case types.Int32, types.UntypedRune:
		return int32(bits)
	case types.Int64:
		return int64(bits)
	case types.Uint:
		return uint(bits)
	case types.Uint8:
		return uint8(bits)
	case types.Uint16:
		return uint16(bits)
	case types.Uint32:
		return uint32(bits)
	case types.Uint64:
		return bits
	case types.Uintptr:
		return uintptr(bits)
	}
	panic(unsupported(fmt.Sprintf("fromBits: %s", t)))
}

// simplify turns a constant term back into a concrete Go scalar of type t.
func concretizeIfConst(t types.Type, v value) value {
	if tm, ok := v.(*Term); ok && tm.isConst() {
		if _, _, ok := basicWidth(t); ok {
			return fromBits(t, tm.val)
		}
	}
	return v
}

func isSym(v value) bool {
	_, ok := v.(*Term)
	return ok
}

// eqv compares two values of type t; the result is a bool or a Bool *Term.
func (r *run) eqv(t types.Type, x, y value) value {
	if isSym(x) || isSym(y) {
		return concretizeIfConst(types.Typ[types.Bool], r.tt.Eq(r.toTerm(t, x), r.toTerm(t, y)))
	}
	switch x := x.(type) {
	case bool:
		return x == y.(bool)
	case int:
		return x == y.(int)
	case int8:
		return x == y.(int8)
	case int16:
		return x == y.(int16)
	case int32:
		return x == y.(int32)
	case int64:
		return x == y.(int64)
	case uint:
		return x == y.(uint)
	case uint8:
		return x == y.(uint8)
	case uint16:
		return x == y.(uint16)
	case uint32:
		return x == y.(uint32)
	case uint64:
		return x == y.(uint64)
	case uintptr:
		return x == y.(uintptr)
	case float32:
		return x == y.(float32)
	case float64:
		return x == y.(float64)
	case complex64:
		return x == y.(complex64)
	case complex128:
		return x == y.(complex128)
	case string:
		return x == y.(string)
	case *value:
		return x == y.(*value)
	case *chanObj:
		return x == y.(*chanObj)
	case opaque:
		yo, ok := y.(opaque)
		return ok && yo.id == x.id
	case structure:
		y := y.(structure)
		tStruct := t.Underlying().(*types.Struct)
		var acc value = true
		for i, n := 0, tStruct.NumFields(); i < n; i++ {
			if f := tStruct.Field(i); f.Name() != "_" {
				acc = r.andv(acc, r.eqv(f.Type(), x[i], y[i]))
				if acc == false {
					return false
				}
			}
		}
		return acc
	case array:
		y := y.(array)
		tElt := t.Underlying().(*types.Array).Elem()
		var acc value = true
		for i := range x {
			acc = r.andv(acc, r.eqv(tElt, x[i], y[i]))
			if acc == false {
				return false
			}
		}
		return acc
	case iface:
		y := y.(iface)
		if !sameType(x.t, y.t) {
			return false
		}
		if x.t == nil {
			return true
		}
		if !types.Comparable(x.t) {
			panic(runtimePanic("runtime error: comparing uncomparable type " + x.t.String()))
		}
		return r.eqv(x.t, x.v, y.v)
	}
	panic(unsupported(fmt.Sprintf("comparing uncomparable type %s (%T)", t, x)))
}

func (r *run) andv(a, b value) value {
	ab, aok := a.(bool)
	bb, bok := b.(bool)
	switch {
	case aok && bok:
		return ab && bb
	case aok:
		if !ab {
			return false
		}
		return b
	case bok:
		if !bb {
			return false
		}
		return a
	}
	return r.tt.And(a.(*Term), b.(*Term))
}

func (r *run) notv(a value) value {
	if b, ok := a.(bool); ok {
		return !b
	}
	return concretizeIfConst(types.Typ[types.Bool], r.tt.Not(a.(*Term)))
}

// ---- maps ----

func (m *mapObj) len() int {
	if m == nil {
		return 0
	}
	return len(m.entries)
}

func (r *run) mapFind(m *mapObj, k value) *mapEntry {
	if m == nil {
		return nil
	}
	for _, e := range m.entries {
		eq := r.eqv(m.keyT, e.key, k)
		if r.truth(eq, "mapkey") {
			return e
		}
	}
	return nil
}

func (r *run) mapInsert(m *mapObj, k, v value) {
	if m == nil {
		panic(runtimePanic("assignment to entry in nil map"))
	}
	if e := r.mapFind(m, k); e != nil {
		e.val = v
		return
	}
	m.entries = append(m.entries, &mapEntry{k, v})
}

func (r *run) mapDelete(m *mapObj, k value) {
	if m == nil {
		return
	}
	for i, e := range m.entries {
		if r.truth(r.eqv(m.keyT, e.key, k), "mapkey") {
			m.entries = append(append([]*mapEntry{}, m.entries[:i]...), m.entries[i+1:]...)
			return
		}
	}
}

type mapIter struct {
	snapshot []*mapEntry
	m        *mapObj
	i        int
}

func (it *mapIter) next() tuple {
	for it.i < len(it.snapshot) {
		e := it.snapshot[it.i]
		it.i++
		// skip entries deleted during iteration
		live := false
		for _, c := range it.m.entries {
			if c == e {
				live = true
				break
			}
		}
		if live {
			return tuple{true, e.key, e.val}
		}
	}
	return tuple{false, nil, nil}
}

type stringIter struct {
	s string
	i int
}

func (it *stringIter) next() tuple {
	if it.i >= len(it.s) {
		return tuple{false, nil, nil}
	}
	for idx, ch := range it.s[it.i:] {
		_ = idx
		start := it.i
		n := len(string(ch))
		if ch == 0xFFFD {
			n = 1
		}
		it.i += n
		return tuple{true, start, ch}
	}
	return tuple{false, nil, nil}
}
