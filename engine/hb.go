package main

// Happens-before tracking (vector clocks) and data-race detection on plain
// loads/stores of heap cells, following the Go memory model's synchronisation
// edges.  A race is reported on any explored schedule in which two conflicting
// plain accesses are unordered, whether or not the schedule made them adjacent.

import (
	"fmt"
	"strings"

	"golang.org/x/tools/go/ssa"
)

type vclock []int

func (v vclock) clone() vclock { return append(vclock(nil), v...) }

func (v *vclock) tick(id int) {
	for len(*v) <= id {
		*v = append(*v, 0)
	}
	(*v)[id]++
}

func (v *vclock) join(o vclock) {
	for len(*v) < len(o) {
		*v = append(*v, 0)
	}
	for i, c := range o {
		if c > (*v)[i] {
			(*v)[i] = c
		}
	}
}

func (v vclock) at(id int) int {
	if id < len(v) {
		return v[id]
	}
	return 0
}

type accessRec struct {
	tid   int
	clock int
	site  string
	lib   bool
}

type cellMeta struct {
	lastWrite *accessRec
	reads     []*accessRec
}

type syncMeta struct {
	vc vclock
}

func (r *run) syncMetaFor(p *value) *syncMeta {
	m := r.syncObjs[p]
	if m == nil {
		m = &syncMeta{}
		r.syncObjs[p] = m
	}
	return m
}

// acquire/release on a synchronisation object identified by address p.
func (t *thread) acquire(p *value) {
	if !t.r.trackRaces {
		return
	}
	t.vc.join(t.r.syncMetaFor(p).vc)
}

func (t *thread) release(p *value) {
	if !t.r.trackRaces {
		return
	}
	m := t.r.syncMetaFor(p)
	m.vc.join(t.vc)
	t.vc.tick(t.id)
}

func (i *interpreter) isLibFn(fn *ssa.Function) bool {
	if i.isHarnessFn(fn) {
		return false
	}
	for fn.Parent() != nil {
		fn = fn.Parent()
	}
	if fn.Pkg == nil {
		if o := fn.Origin(); o != nil && o.Pkg != nil {
			return strings.HasPrefix(o.Pkg.Pkg.Path(), "github.com/samber/ro")
		}
		return false
	}
	return strings.HasPrefix(fn.Pkg.Pkg.Path(), "github.com/samber/ro")
}

// libContext: the access is made by the library or on its behalf — by a samber/ro function, or by a
// function of another package (math/big, strings, ...) called from one: the memory such a callee
// touches through its arguments belongs to the caller.  Callees of harness code do not count.
func (i *interpreter) libContext(fr *frame) bool {
	if fr.libctx != 0 {
		return fr.libctx > 0
	}
	res := false
	for f := fr; f != nil; f = f.caller {
		if f.fn == nil {
			continue
		}
		if i.isHarnessFn(f.fn) {
			break
		}
		if i.isLibFn(f.fn) {
			res = true
			break
		}
		// the modelled synchronisation primitives keep their own bookkeeping
		if f.fn.Pkg != nil {
			if p := f.fn.Pkg.Pkg.Path(); p == "sync" || p == "sync/atomic" || p == "context" || p == "time" {
				break
			}
		}
	}
	if res {
		fr.libctx = 1
	} else {
		fr.libctx = -1
	}
	return res
}

// access records a plain load/store of a heap cell and checks it against
// earlier unordered accesses.
func (r *run) access(fr *frame, addr *value, write bool, instr ssa.Instruction) {
	if !r.trackRaces || len(r.threads) == 1 {
		return
	}
	// frame locals never escape
	switch in := instr.(type) {
	case *ssa.UnOp:
		if a, ok := in.X.(*ssa.Alloc); ok && !a.Heap {
			return
		}
	case *ssa.Store:
		if a, ok := in.Addr.(*ssa.Alloc); ok && !a.Heap {
			return
		}
	}
	if r.harnessCells[addr] {
		return
	}
	t := fr.t
	lib := r.i.libContext(fr)
	m := r.cellMeta[addr]
	if m == nil {
		m = &cellMeta{}
		r.cellMeta[addr] = m
	}
	me := &accessRec{tid: t.id, clock: t.vc.at(t.id), lib: lib}
	conflict := func(o *accessRec) bool {
		return o != nil && o.tid != t.id && o.clock > t.vc.at(o.tid) && (o.lib || lib)
	}
	report := func(o *accessRec, okind string) {
		me.site = fr.pos(instr)
		kind := "read"
		if write {
			kind = "write"
		}
		r.violate("race", fmt.Sprintf("data race: %s at %s (thread %d) unordered with %s at %s (thread %d)", kind, me.site, t.id, okind, o.site, o.tid), o.site+"|"+me.site)
	}
	if conflict(m.lastWrite) {
		report(m.lastWrite, "write")
	}
	if write {
		for _, rd := range m.reads {
			if conflict(rd) {
				report(rd, "read")
			}
		}
		me.site = fr.pos(instr)
		m.lastWrite = me
		m.reads = nil
	} else {
		me.site = fr.pos(instr)
		// keep one read record per thread
		for i, rd := range m.reads {
			if rd.tid == t.id {
				m.reads[i] = me
				return
			}
		}
		m.reads = append(m.reads, me)
	}
}
