# C18, regexp plugin (plugins/regexp, package roregexp) over the contract stub shim/stubs/regexp.
_REGEXP = dict(overlay="harness/regexp", pkgdir="plugins/regexp", pkgname="roregexp", stubs={"regexp": "regexp"})
QUICK = [J("^vhC18_regexp_n2$", samples=3, **_REGEXP)]
THOROUGH = [J("^vhC18_regexp_n3$", samples=3, **_REGEXP)]
