# C18, base64 plugin (plugins/encoding/base64, package robase64) over the contract stub shim/stubs/base64.
_BASE64 = dict(overlay="harness/base64", pkgdir="plugins/encoding/base64", pkgname="robase64", stubs={"encoding/base64": "base64"})
QUICK = [J("^vhC18_base64_n2$", samples=3, **_BASE64)]
THOROUGH = [J("^vhC18_base64_n3$", samples=3, **_BASE64)]
