module vrewrite

go 1.23

require golang.org/x/tools v0.29.0
