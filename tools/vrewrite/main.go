// vrewrite produces the copy of a samber/ro source file that native replays compile instead of
// the original (through `go test -overlay`): imports of sync, sync/atomic and time are redirected
// to the shim packages under github.com/samber/ro/internal/verifrt, and `go f(x)` statements
// become `ctl.Go(func() { f(x) })` so that library goroutines are scheduled by the replay
// controller.  The original file is never modified.
package main

import (
	"flag"
	"go/ast"
	"go/format"
	"go/parser"
	"go/token"
	"os"
	"strconv"
	"strings"

	"golang.org/x/tools/go/ast/astutil"
)

const base = "github.com/samber/ro/internal/verifrt/"

func main() {
	doSync := flag.Bool("sync", false, "redirect sync and sync/atomic, rewrite go statements")
	doTime := flag.Bool("time", false, "redirect time")
	stubs := flag.String("stub", "", "comma-separated importpath=stubname: redirect the import to verifrt/stubs/<stubname>")
	flag.Parse()
	in, out := flag.Arg(0), flag.Arg(1)
	fset := token.NewFileSet()
	f, err := parser.ParseFile(fset, in, nil, parser.ParseComments)
	if err != nil {
		panic(err)
	}
	changed := false
	swap := func(path, to, name string) {
		for _, imp := range f.Imports {
			p, _ := strconv.Unquote(imp.Path.Value)
			if p == path {
				imp.Path.Value = strconv.Quote(base + to)
				if imp.Name == nil {
					imp.Name = ast.NewIdent(name)
				}
				changed = true
			}
		}
	}
	if *doSync {
		swap("sync", "vsync", "sync")
		swap("sync/atomic", "vatomic", "atomic")
		goFound := false
		astutil.Apply(f, func(c *astutil.Cursor) bool {
			if ce, ok := c.Node().(*ast.CallExpr); ok {
				if se, ok := ce.Fun.(*ast.SelectorExpr); ok {
					if x, ok := se.X.(*ast.Ident); ok && x.Name == "runtime" && se.Sel.Name == "Gosched" {
						ce.Fun = &ast.SelectorExpr{X: ast.NewIdent("verifrtctl"), Sel: ast.NewIdent("Gosched")}
						goFound = true
					}
				}
			}
			if g, ok := c.Node().(*ast.GoStmt); ok {
				goFound = true
				c.Replace(&ast.ExprStmt{X: &ast.CallExpr{
					Fun: &ast.SelectorExpr{X: ast.NewIdent("verifrtctl"), Sel: ast.NewIdent("GoLib")},
					Args: []ast.Expr{&ast.FuncLit{
						Type: &ast.FuncType{Params: &ast.FieldList{}},
						Body: &ast.BlockStmt{List: []ast.Stmt{&ast.ExprStmt{X: g.Call}}},
					}},
				}})
			}
			return true
		}, nil)
		if goFound {
			astutil.AddNamedImport(fset, f, "verifrtctl", base+"ctl")
			if !astutil.UsesImport(f, "runtime") {
				astutil.DeleteImport(fset, f, "runtime")
			}
			changed = true
		}
	}
	if *doTime {
		swap("time", "vtime", "time")
	}
	if *stubs != "" {
		for _, kv := range strings.Split(*stubs, ",") {
			p := strings.SplitN(kv, "=", 2)
			if len(p) != 2 {
				continue
			}
			name := p[0][strings.LastIndex(p[0], "/")+1:]
			swap(p[0], "stubs/"+p[1], name)
		}
	}
	if !changed {
		os.Exit(10) // nothing to rewrite: the caller keeps the original
	}
	w, err := os.Create(out)
	if err != nil {
		panic(err)
	}
	defer w.Close()
	if err := format.Node(w, fset, f); err != nil {
		panic(err)
	}
}
