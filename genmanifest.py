#!/usr/bin/env python3
"""Regenerates /verif/MANIFEST.json from checkcfg.py (claimed checks) and properties.jsonl."""
import json, os, sys
VERIF = os.path.dirname(os.path.abspath(__file__))
sys.path.insert(0, VERIF)
from checkcfg import PROPS, TEXT, NOT_APPLICABLE  # noqa

ids = [json.loads(l)["id"] for l in open(os.path.join(VERIF, "properties.jsonl"))]
checks = []
for pid in ids:
    if pid not in PROPS or pid in NOT_APPLICABLE:
        continue
    t = TEXT.get(pid, {})
    checks.append({
        "property_id": pid,
        "quick_cmd": "/verif/check %s quick" % pid,
        "thorough_cmd": "/verif/check %s thorough" % pid,
        "evidence_file": "/verif/evidence/%s.json" % pid,
        "replay_cmd_template": "/verif/check --replay {path}",
        "engine": "symro",
        "level_claimed": {
            "category": "model_checking",
            "text": t.get("text", "bounded symbolic execution of the real code (go/ssa) with an SMT solver deciding every data-dependent branch and assertion; schedules enumerated up to a preemption bound"),
            "design_ref": t.get("design_ref", "DESIGN.md §4 " + pid),
        },
        "level_note": t.get("note", "bounded: see evidence 'bounds'; stubs for sync, sync/atomic, time, context.WithValue, fmt, errors.Is/As as listed in the evidence; go/ssa and z3 trusted"),
        "technique": t.get("technique", "SMT-backed symbolic execution of go/ssa (symro), counterexamples replayed natively"),
    })
na = [{"property_id": p, "reason": r} for p, r in NOT_APPLICABLE.items()]
for pid in ids:
    if pid not in PROPS and pid not in NOT_APPLICABLE:
        na.append({"property_id": pid, "reason": "check not yet registered (work in progress)"})
m = {
    "version": 1,
    "setup_cmd": "cd /verif/engine && GOFLAGS=-mod=mod GOPROXY=off GOSUMDB=off GOTOOLCHAIN=local go build -o /verif/bin/symro . && cd /verif/tools/vrewrite && GOFLAGS=-mod=mod GOPROXY=off GOSUMDB=off GOTOOLCHAIN=local go build -o /verif/bin/vrewrite .",
    "hooks": {
        "guard": "verif",
        "enable": "no source hooks: harness files (build tag verif for the native twins) are injected by go/packages Overlay for the engine and by go test -overlay -tags verif for native replays; /repo itself is never modified by a check",
        "baseline_off_cmd": "bash /verif/baseline_off.sh",
        "source_commits": [],
        "add_only": True,
    },
    "engines": [{"name": "symro", "path": "/verif/engine", "serves_properties": [c["property_id"] for c in checks],
                 "kind_free_text": "forking symbolic executor over go/ssa (SSA rebuilt from /repo's working tree on every run) with z3 as decision procedure; explicit threads with preemption-bounded schedule enumeration, happens-before race detection, logical clock; native replay of every counterexample"}],
    "checks": checks,
    "notes": "Known, reproduced and unrepaired defects are listed in /verif/known_findings.txt and reported as KNOWN-FINDING lines; repaired ones are 'fix:' commits in /repo.",
    "not_applicable": na,
}
json.dump(m, open(os.path.join(VERIF, "MANIFEST.json"), "w"), indent=1)
print("claimed:", [c["property_id"] for c in checks], "n/a:", [x["property_id"] for x in na])
