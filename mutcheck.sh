#!/bin/bash
# mutcheck.sh <mutation id> <property ids...>: confirm a seeded change in its scratch worktree, then
# run the given checks against /repo with the patch applied, and undo it.
id=$1; shift
wt=/tmp/mut/$id; out=/tmp/mut/$id.out
export GOFLAGS= GOPROXY=off GOSUMDB=off
demo=$(cd $wt && git status --short | grep 'zz_mut_demo_test.go' | awk '{print $2}' | head -1)
ddir=$(dirname "$wt/$demo")
echo "== demo: $demo"
(cd $ddir && timeout 300 go test -vet=off -count=1 -run 'TestMutDemo' . 2>&1 | tail -3) > /tmp/mut/$id.with.log
echo "with change: $(tail -1 /tmp/mut/$id.with.log)"
# (git stash is shared by all worktrees of one repository: use a reverse patch instead)
(cd $wt && git diff > /tmp/mut/$id.cur.diff && git apply -R /tmp/mut/$id.cur.diff && cd $ddir && timeout 300 go test -vet=off -count=1 -run 'TestMutDemo' . 2>&1 | tail -3; cd $wt && git apply /tmp/mut/$id.cur.diff) > /tmp/mut/$id.without.log
echo "without change: $(tail -1 /tmp/mut/$id.without.log)"
echo "== applying to /repo"
git -C /repo apply $out/patch.diff || { echo "PATCH DOES NOT APPLY"; exit 3; }
for p in "$@"; do
  /verif/check $p ${TIER:-quick} 2>&1 | grep -v '^vh\|^symro\|^KNOWN' | cut -c1-400
  echo "exit($p)=${PIPESTATUS[0]}"
done
git -C /repo checkout -- .
git -C /repo status --short | head -3
