#!/bin/bash
# mutcheck.sh <mutation id> <property ids...>: confirm a seeded change in its scratch worktree
# (demo fails with / passes without), then run the given checks against a scratch worktree of
# /repo with the patch applied (VERIF_REPO), never against /repo itself.
id=$1; shift
wt=/tmp/mut/$id; out=/tmp/mut/$id.out
[ -d $out ] || out=/verif/seeded/$id
export GOFLAGS= GOPROXY=off GOSUMDB=off
if [ -d $wt ]; then
  demo=$(cd $wt && git status --short | grep 'zz_mut_demo_test.go' | awk '{print $2}' | head -1)
  ddir=$(dirname "$wt/$demo")
  echo "== demo: $demo"
  (cd $ddir && timeout 300 go test -vet=off -count=1 -run 'TestMutDemo' . 2>&1 | tail -3) > /tmp/mut/$id.with.log
  echo "with change: $(tail -1 /tmp/mut/$id.with.log)"
  # (git stash is shared by all worktrees of one repository: use a reverse patch instead)
  (cd $wt && git diff > /tmp/mut/$id.cur.diff && git apply -R /tmp/mut/$id.cur.diff && cd $ddir && timeout 300 go test -vet=off -count=1 -run 'TestMutDemo' . 2>&1 | tail -3; cd $wt && git apply /tmp/mut/$id.cur.diff) > /tmp/mut/$id.without.log
  echo "without change: $(tail -1 /tmp/mut/$id.without.log)"
fi
mr=/var/tmp/mutrepo-$id
git -C /repo worktree remove --force $mr 2>/dev/null
git -C /repo worktree add -q --detach $mr HEAD || exit 3
echo "== applying to scratch worktree $mr"
git -C $mr apply $out/patch.diff || { echo "PATCH DOES NOT APPLY"; git -C /repo worktree remove --force $mr; exit 3; }
for p in "$@"; do
  VERIF_REPO=$mr /verif/check $p ${TIER:-quick} 2>&1 | grep -v '^vh\|^symro\|^KNOWN' | cut -c1-400
  echo "exit($p)=${PIPESTATUS[0]}"
done
git -C /repo worktree remove --force $mr
git -C /repo worktree prune
