# the float precision-rounding operators under concurrency (concrete values, math/big from its pure-Go kernels)
PROPERTY = "C13"
QUICK = [J("^vhC13_floatconc$", preempt=0, races=True, only_kinds=["race", "crash"], samples=1, tags="math_big_pure_go", init="math,math/big,math/bits,strconv", maxsteps=4000000)]
THOROUGH = [J("^vhC13_floatconc$", preempt=1, races=True, only_kinds=["race", "crash"], samples=1, tags="math_big_pure_go", init="math,math/big,math/bits,strconv", maxsteps=4000000)]
