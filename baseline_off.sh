#!/bin/bash
# Runs the repository's own test suite with the verif guard OFF (no tags, no overlay),
# the same way /root/.vp/BASELINE.json does.
cd /repo || exit 2
export GOPROXY=off GOSUMDB=off
gomodflag() { local gw; gw=$(go env GOWORK 2>/dev/null); if [ -z "$gw" ] || [ "$gw" = off ]; then echo "-mod=mod"; fi; }
fail=0
for m in $(cat /verif/gomods.txt); do
  MF=$(cd /repo/$m && gomodflag)
  (cd /repo/$m && go test $MF -vet=off -count=1 -timeout 25m ./...) || fail=1
done
exit $fail
