# C18, json plugin (plugins/encoding/json) over the contract stub shim/stubs/json.
_JSON = dict(overlay="harness/json", pkgdir="plugins/encoding/json", pkgname="rojson", stubs={"encoding/json": "json"})
QUICK = [J("^vhC18_json_n2$", samples=3, **_JSON)]
THOROUGH = [J("^vhC18_json_n3$", samples=3, **_JSON)]
