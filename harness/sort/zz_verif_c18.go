package rosort

import (
	"context"

	"github.com/samber/ro"
)

// C18 (sort plugin): the output is a sorted permutation of the input, stable
// where the operator says so; the source's error is propagated; the core
// contract (grammar, release of the source) holds.  sort.Slice is a contract
// stub (any sorted permutation): a stable sort is only guaranteed by code that
// asks for one.

type vItem struct {
	K  int64 // sort key
	ID int64 // distinguishes items equal under the comparison
}

func vCmpItem(a, b vItem) int {
	switch {
	case a.K < b.K:
		return -1
	case a.K > b.K:
		return 1
	}
	return 0
}

func vCmpInt(a, b int64) int {
	switch {
	case a < b:
		return -1
	case a > b:
		return 1
	}
	return 0
}

func vC18Sort(n int) {
	which := vChoice("op", 3) // 0 Sort, 1 SortFunc, 2 SortStableFunc
	cnt := vChoice("n", n+1)
	failing := vChoice("fail", 2) == 1
	items := make([]vItem, cnt)
	for i := range items {
		items[i] = vItem{K: vInt64("k" + vItoa(i)), ID: int64(i)}
	}
	if !vSymbolic() && cnt >= 2 {
		// Native replay: the real sort.Slice is an insertion sort (stable in practice) below 12
		// elements, so a tie order that the contract allows cannot show on 3 items.  The scenario
		// is replicated cyclically to sizes on both sides of the library's internal thresholds
		// (16: between pdqsort's insertion-sort cut-off and SliceStable's block size; 64: beyond
		// both), where the real algorithms do reorder ties.
		base := items
		for _, size := range []int{16, 64} {
			big := make([]vItem, size)
			for i := range big {
				big[i] = vItem{K: base[i%len(base)].K, ID: int64(i)}
			}
			vC18SortRun(which, failing, big)
		}
		vReach("end")
		return
	}
	vC18SortRun(which, failing, items)
	vReach("end")
}

func vC18SortRun(which int, failing bool, items []vItem) {
	cnt := len(items)
	released := 0
	srcItems := ro.NewUnsafeObservableWithContext(func(ctx context.Context, d ro.Observer[vItem]) ro.Teardown {
		for _, it := range items {
			d.NextWithContext(ctx, it)
		}
		if failing {
			d.ErrorWithContext(ctx, vErrA)
		} else {
			d.CompleteWithContext(ctx)
		}
		return func() { released++ }
	})
	srcInts := ro.NewUnsafeObservableWithContext(func(ctx context.Context, d ro.Observer[int64]) ro.Teardown {
		for _, it := range items {
			d.NextWithContext(ctx, it.K)
		}
		if failing {
			d.ErrorWithContext(ctx, vErrA)
		} else {
			d.CompleteWithContext(ctx)
		}
		return func() { released++ }
	})
	var got []vItem
	terminal := 0
	var gotErr error
	obsItem := ro.NewObserver(func(v vItem) { got = append(got, v) }, func(err error) { terminal += 10; gotErr = err }, func() { terminal++ })
	obsInt := ro.NewObserver(func(v int64) { got = append(got, vItem{K: v, ID: -1}) }, func(err error) { terminal += 10; gotErr = err }, func() { terminal++ })
	name := ""
	switch which {
	case 0:
		name = "Sort"
		Sort[int64](vCmpInt)(srcInts).SubscribeWithContext(context.Background(), obsInt)
	case 1:
		name = "SortFunc"
		SortFunc[vItem](vCmpItem)(srcItems).SubscribeWithContext(context.Background(), obsItem)
	default:
		name = "SortStableFunc"
		SortStableFunc[vItem](vCmpItem)(srcItems).SubscribeWithContext(context.Background(), obsItem)
	}
	vAssert(released == 1, name+": the source was not released exactly once")
	if failing {
		vAssert(terminal == 10 && len(got) == 0 && vErrCode(gotErr) == 1, name+": the error of the source was not propagated alone")
		return
	}
	vAssert(terminal == 1, name+": not exactly one completion")
	vAssert(len(got) == cnt, name+": the output is not a permutation of the input (length)")
	acc := true
	for i := 0; i+1 < len(got); i++ {
		acc = vAnd(acc, got[i].K <= got[i+1].K)
	}
	vAssert(acc, name+": the output is not sorted")
	if which != 0 {
		// permutation: every input identity appears exactly once, with its own key
		seen := make([]int, cnt)
		perm := true
		for _, g := range got {
			if g.ID >= 0 && g.ID < int64(cnt) {
				seen[g.ID]++
				perm = vAnd(perm, g.K == items[g.ID].K)
			}
		}
		for _, s := range seen {
			vAssert(s == 1, name+": the output is not a permutation of the input")
		}
		vAssert(perm, name+": an item was modified")
	}
	if which == 2 {
		st := true
		for i := 0; i+1 < len(got); i++ {
			st = vAnd(st, vIte(got[i].K == got[i+1].K, vIte(got[i].ID < got[i+1].ID, 1, 0), 1) == 1)
		}
		vAssert(st, "SortStableFunc: items equal under the comparison did not keep their original order")
	}
}

func vhC18_sort_n2() { vC18Sort(2) }
func vhC18_sort_n3() { vC18Sort(3) }
