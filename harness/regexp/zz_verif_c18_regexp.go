package roregexp

import (
	"github.com/samber/ro"
	"github.com/samber/ro/internal/verifrt/stubs/hook"
	stubregexp "github.com/samber/ro/internal/verifrt/stubs/regexp"
)

// C18 (regexp plugin) with the standard regexp package replaced, for the plugin's source only, by the
// contract stub /verif/shim/stubs/regexp: a compiled expression is an identity, every method is an
// uninterpreted function of (expression id, text id, parameters); text results are rendered from the
// concrete arguments.  Checked, for all 14 operators of the plugin (string and []byte flavours): for
// every item the emitted value is exactly what the wrapped method returns for THAT item with the
// operator's own expression, count n and replacement in the right positions (nil results stay nil), one
// value per item in order (the filters: exactly the matching items, in order), no Error, the []byte
// flavour agrees with the string flavour on the same text, and the items handed to the operator are
// not modified.

var vTexts = []string{"t0", "t1", "t2", "r0", "r1"}

const vItemTexts = 3 // vTexts[:3] are items, the rest replacements

func init() {
	hook.UFInt = vUFInt
	hook.UFBool = vUFBool
	hook.Yield = vYield
	hook.ID = func(s string) int64 {
		for i, t := range vTexts {
			if t == s {
				return int64(i)
			}
		}
		return -1
	}
}

func vEqS(a, b string) bool  { return a == b }
func vEqBool(a, b bool) bool { return a == b }
func vEqB(a, b []byte) bool  { return (a == nil) == (b == nil) && string(a) == string(b) }

func vEqSS(a, b []string) bool {
	if (a == nil) != (b == nil) || len(a) != len(b) {
		return false
	}
	for i := range a {
		if a[i] != b[i] {
			return false
		}
	}
	return true
}

func vEqBB(a, b [][]byte) bool {
	if (a == nil) != (b == nil) || len(a) != len(b) {
		return false
	}
	for i := range a {
		if !vEqB(a[i], b[i]) {
			return false
		}
	}
	return true
}

func vEqSSS(a, b [][]string) bool {
	if (a == nil) != (b == nil) || len(a) != len(b) {
		return false
	}
	for i := range a {
		if !vEqSS(a[i], b[i]) {
			return false
		}
	}
	return true
}

func vEqBBB(a, b [][][]byte) bool {
	if (a == nil) != (b == nil) || len(a) != len(b) {
		return false
	}
	for i := range a {
		if !vEqBB(a[i], b[i]) {
			return false
		}
	}
	return true
}

func vBytesOf(s []string) [][]byte {
	if s == nil {
		return nil
	}
	out := make([][]byte, len(s))
	for i := range s {
		out[i] = []byte(s[i])
	}
	return out
}

func vBytesOf2(s [][]string) [][][]byte {
	if s == nil {
		return nil
	}
	out := make([][][]byte, len(s))
	for i := range s {
		out[i] = vBytesOf(s[i])
	}
	return out
}

// vExpectEach: a mapping operator over a wrapped method that cannot fail: one value per item, in
// order, each equal to want(i).
func vExpectEach[T any](label string, got []T, err error, cnt int, want func(i int) T, eq func(a, b T) bool) {
	vAssert(err == nil, label+": an error was reported although the wrapped function cannot fail")
	vAssert(len(got) == cnt, label+": the number of values differs from the number of items")
	for i := range got {
		vAssert(eq(got[i], want(i)), label+": the emitted value is not what the wrapped function returns for that item and those parameters")
	}
}

// vExpectKept: a filter: exactly the items for which the wrapped predicate holds, in order.
func vExpectKept[T any](label string, got []T, err error, cnt int, keep func(i int) bool, item func(i int) T, eq func(a, b T) bool) {
	vAssert(err == nil, label+": an error was reported although the wrapped function cannot fail")
	k := 0
	for i := 0; i < cnt; i++ {
		if !keep(i) {
			continue
		}
		vAssert(k < len(got), label+": an item the wrapped function matches is missing")
		vAssert(eq(got[k], item(i)), label+": the emitted value is not the next item the wrapped function matches")
		k++
	}
	vAssert(len(got) == k, label+": more values than items the wrapped function matches")
}

var vCounts = []int{-1, 1, 2}

func vC18Regexp(n int) {
	cnt := vChoice("n", n+1)
	strs := make([]string, cnt)
	bs := make([][]byte, cnt)
	ids := make([]int64, cnt)
	for i := 0; i < cnt; i++ {
		k := vChoice("i"+vItoa(i), vItemTexts)
		ids[i] = int64(k)
		strs[i] = vTexts[k]
		bs[i] = []byte(vTexts[k])
	}
	// two expressions exist; the operator is given one of them
	re := &stubregexp.Regexp{ID: int64(7 + vChoice("re", 2))}
	ssrc := ro.FromSlice(strs)
	bsrc := ro.FromSlice(bs)
	switch vChoice("op", 14) {
	case 0:
		got, err := ro.Collect(MatchString[string](re)(ssrc))
		vExpectEach("MatchString", got, err, cnt,
			func(i int) bool { return vUFBool("Regexp.Match", re.ID, ids[i]) }, vEqBool)
	case 1:
		got, err := ro.Collect(Match[[]byte](re)(bsrc))
		vExpectEach("Match", got, err, cnt,
			func(i int) bool { return vUFBool("Regexp.Match", re.ID, ids[i]) }, vEqBool)
	case 2:
		got, err := ro.Collect(FindString[string](re)(ssrc))
		vExpectEach("FindString", got, err, cnt,
			func(i int) string { return re.FindString(strs[i]) }, vEqS)
	case 3:
		got, err := ro.Collect(Find[[]byte](re)(bsrc))
		vExpectEach("Find", got, err, cnt,
			func(i int) []byte {
				if vUFBool("Regexp.Find.none", re.ID, ids[i]) {
					return nil
				}
				return []byte(re.FindString(strs[i]))
			}, vEqB)
	case 4:
		got, err := ro.Collect(FindStringSubmatch[string](re)(ssrc))
		vExpectEach("FindStringSubmatch", got, err, cnt,
			func(i int) []string { return re.FindStringSubmatch(strs[i]) }, vEqSS)
	case 5:
		got, err := ro.Collect(FindSubmatch[[]byte](re)(bsrc))
		vExpectEach("FindSubmatch", got, err, cnt,
			func(i int) [][]byte { return vBytesOf(re.FindStringSubmatch(strs[i])) }, vEqBB)
	case 6:
		c := vCounts[vChoice("count", len(vCounts))]
		got, err := ro.Collect(FindAllString[string](re, c)(ssrc))
		vExpectEach("FindAllString", got, err, cnt,
			func(i int) []string { return re.FindAllString(strs[i], c) }, vEqSS)
	case 7:
		c := vCounts[vChoice("count", len(vCounts))]
		got, err := ro.Collect(FindAll[[]byte](re, c)(bsrc))
		vExpectEach("FindAll", got, err, cnt,
			func(i int) [][]byte { return vBytesOf(re.FindAllString(strs[i], c)) }, vEqBB)
	case 8:
		c := vCounts[vChoice("count", len(vCounts))]
		got, err := ro.Collect(FindAllStringSubmatch[string](re, c)(ssrc))
		vExpectEach("FindAllStringSubmatch", got, err, cnt,
			func(i int) [][]string { return re.FindAllStringSubmatch(strs[i], c) }, vEqSSS)
	case 9:
		c := vCounts[vChoice("count", len(vCounts))]
		got, err := ro.Collect(FindAllSubmatch[[]byte](re, c)(bsrc))
		vExpectEach("FindAllSubmatch", got, err, cnt,
			func(i int) [][][]byte { return vBytesOf2(re.FindAllStringSubmatch(strs[i], c)) }, vEqBBB)
	case 10:
		repl := vTexts[vItemTexts+vChoice("repl", len(vTexts)-vItemTexts)]
		got, err := ro.Collect(ReplaceAllString[string](re, repl)(ssrc))
		vExpectEach("ReplaceAllString", got, err, cnt,
			func(i int) string { return "ReplaceAll(" + vItoa(int(re.ID)) + "," + strs[i] + "," + repl + ")" }, vEqS)
	case 11:
		repl := vTexts[vItemTexts+vChoice("repl", len(vTexts)-vItemTexts)]
		rb := []byte(repl)
		got, err := ro.Collect(ReplaceAll[[]byte](re, rb)(bsrc))
		vExpectEach("ReplaceAll", got, err, cnt,
			func(i int) []byte {
				return []byte("ReplaceAll(" + vItoa(int(re.ID)) + "," + strs[i] + "," + repl + ")")
			}, vEqB)
		vAssert(string(rb) == repl, "ReplaceAll: the replacement handed to the operator was modified")
	case 12:
		got, err := ro.Collect(FilterMatchString[string](re)(ssrc))
		vExpectKept("FilterMatchString", got, err, cnt,
			func(i int) bool { return vUFBool("Regexp.Match", re.ID, ids[i]) },
			func(i int) string { return strs[i] }, vEqS)
	default:
		got, err := ro.Collect(FilterMatch[[]byte](re)(bsrc))
		vExpectKept("FilterMatch", got, err, cnt,
			func(i int) bool { return vUFBool("Regexp.Match", re.ID, ids[i]) },
			func(i int) []byte { return []byte(strs[i]) }, vEqB)
	}
	for i := 0; i < cnt; i++ {
		vAssert(strs[i] == vTexts[ids[i]] && string(bs[i]) == vTexts[ids[i]], "an item handed to the operator was modified")
	}
	vReach("end")
}

func vhC18_regexp_n2() { vC18Regexp(2) }
func vhC18_regexp_n3() { vC18Regexp(3) }
