package robase64

import (
	"errors"

	"github.com/samber/ro"
	stubbase64 "github.com/samber/ro/internal/verifrt/stubs/base64"
	"github.com/samber/ro/internal/verifrt/stubs/hook"
)

// C18 (base64 plugin) with the standard encoding/base64 replaced, for the plugin's source only, by the
// contract stub /verif/shim/stubs/base64: an encoding is an identity (the four standard ones are
// distinct), EncodeToString renders "Enc(<encoding>,<bytes>)", DecodeString gives the original bytes
// back for a text produced by the same encoding and is otherwise an uninterpreted function of
// (encoding, text id) that fails when the predicate DecodeString.err holds.  Checked: Encode emits, for
// every item, the wrapped function's result for THAT item under the operator's own encoding; Decode
// emits the wrapped function's result for every item before the first one it rejects and then ends the
// stream with that error; Decode(e2)(Encode(e1)(x)) is DecodeString of e2 applied to EncodeToString of
// e1 - the original items and no error when e1 and e2 are the same encoding; one value per item in
// order, never more; the items handed to the operators are not modified.

var vBase = []string{"t0", "t1", "t2"}

var vEncs = []*stubbase64.Encoding{stubbase64.StdEncoding, stubbase64.URLEncoding, stubbase64.RawStdEncoding, stubbase64.RawURLEncoding}

// vTexts: the texts with an id: vBase, then "Enc(<e>,<t>)" for every encoding e and base text t.
var vTexts []string

func vEncText(e *stubbase64.Encoding, k int) string {
	return "Enc(" + vItoa(int(e.ID)) + "," + vBase[k] + ")"
}

func init() {
	vTexts = append(vTexts, vBase...)
	for _, e := range vEncs {
		for k := range vBase {
			vTexts = append(vTexts, vEncText(e, k))
		}
	}
	hook.UFInt = vUFInt
	hook.UFBool = vUFBool
	hook.Yield = vYield
	hook.ID = func(s string) int64 {
		for i, t := range vTexts {
			if t == s {
				return int64(i)
			}
		}
		return -1
	}
}

// vItem: a text handed to Decode: its id, and - when it is the encoding of vBase[k] by an encoding -
// that encoding's identity and the original text.
type vItem struct {
	text  string
	id    int64
	by    int64 // identity of the encoding that produced the text, 0 for a plain text
	plain string
}

func vPlainItem(k int) vItem { return vItem{text: vBase[k], id: int64(k)} }

func vEncodedItem(e *stubbase64.Encoding, k int) vItem {
	return vItem{text: vEncText(e, k), id: int64(len(vBase) + (int(e.ID)-1)*len(vBase) + k), by: e.ID, plain: vBase[k]}
}

// vExpectDecode walks the items: the decoded value of every item before the first rejected one, then
// the error.
func vExpectDecode(label string, got [][]byte, err error, items []vItem, enc *stubbase64.Encoding) {
	k := 0
	failed := false
	for _, it := range items {
		var want string
		if it.by == enc.ID {
			want = it.plain // produced by this very encoding: decodes to the original, cannot fail
		} else {
			if vUFBool("DecodeString.err", enc.ID, it.id) {
				failed = true
				break
			}
			want = "Dec(" + vItoa(int(enc.ID)) + "," + it.text + ")"
		}
		vAssert(k < len(got), label+": a decoded item is missing")
		vAssert(string(got[k]) == want, label+": the emitted value is not what the wrapped function returns for that item and that encoding")
		k++
	}
	vAssert(len(got) == k, label+": more values than items decoded")
	if failed {
		vAssert(err != nil && errors.Is(err, stubbase64.ErrCorrupt), label+": a decoding error did not surface as the Error notification that ends the stream")
	} else {
		vAssert(err == nil, label+": an error was reported although every item decoded")
	}
}

func vC18Base64(n int) {
	cnt := vChoice("n", n+1)
	enc := vEncs[vChoice("enc", len(vEncs))]
	switch vChoice("op", 3) {
	case 0: // Encode
		ks := make([]int, cnt)
		bs := make([][]byte, cnt)
		for i := range bs {
			ks[i] = vChoice("i"+vItoa(i), len(vBase))
			bs[i] = []byte(vBase[ks[i]])
		}
		got, err := ro.Collect(Encode[[]byte](enc)(ro.FromSlice(bs)))
		vAssert(err == nil, "Encode: an error was reported although the wrapped function cannot fail")
		vAssert(len(got) == cnt, "Encode: the number of values differs from the number of items")
		for i := range got {
			vAssert(got[i] == "Enc("+vItoa(int(enc.ID))+","+vBase[ks[i]]+")", "Encode: the emitted value is not what the wrapped function returns for that item and that encoding")
		}
		for i := range bs {
			vAssert(string(bs[i]) == vBase[ks[i]], "Encode: an item handed to the operator was modified")
		}
	case 1: // Decode: plain texts and texts that are encodings (by the operator's encoding or another)
		other := vEncs[vChoice("other", len(vEncs))]
		items := make([]vItem, cnt)
		texts := make([]string, cnt)
		for i := range items {
			switch k := vChoice("i"+vItoa(i), len(vBase)+2); {
			case k < len(vBase):
				items[i] = vPlainItem(k)
			case k == len(vBase):
				items[i] = vEncodedItem(enc, 0)
			default:
				items[i] = vEncodedItem(other, 1)
			}
			texts[i] = items[i].text
		}
		got, err := ro.Collect(Decode[string](enc)(ro.FromSlice(texts)))
		vExpectDecode("Decode", got, err, items, enc)
	default: // Decode(enc2) after Encode(enc): the same encoding gives the items back
		enc2 := vEncs[vChoice("enc2", len(vEncs))]
		items := make([]vItem, cnt)
		bs := make([][]byte, cnt)
		for i := range items {
			k := vChoice("i"+vItoa(i), len(vBase))
			items[i] = vEncodedItem(enc, k)
			bs[i] = []byte(vBase[k])
		}
		got, err := ro.Collect(Decode[string](enc2)(Encode[[]byte](enc)(ro.FromSlice(bs))))
		vExpectDecode("Decode after Encode", got, err, items, enc2)
		if enc == enc2 {
			vAssert(err == nil && len(got) == cnt, "Decode after Encode with the same encoding: not one value per item")
			for i := range got {
				vAssert(string(got[i]) == string(bs[i]), "Decode after Encode with the same encoding is not the identity")
			}
		}
		for i := range bs {
			vAssert(string(bs[i]) == items[i].plain, "Decode after Encode: an item handed to the operator was modified")
		}
	}
	vReach("end")
}

func vhC18_base64_n2() { vC18Base64(2) }
func vhC18_base64_n3() { vC18Base64(3) }
