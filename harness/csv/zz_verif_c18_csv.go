package rocsv

import (
	"context"

	"github.com/samber/ro"
	stubcsv "github.com/samber/ro/internal/verifrt/stubs/csv"
	"github.com/samber/ro/internal/verifrt/stubs/hook"
)

// C18 (csv plugin) with the standard encoding/csv replaced, for the plugin's source only, by the
// contract stub /verif/shim/stubs/csv: a Reader that plays a script of records (then io.EOF, or a
// failure at a chosen position), a Writer that records what it is given, fails at a chosen Write
// call and counts its Flush calls.
//
// Source (NewCSVReader): the emitted records are exactly the scripted ones before the failure, in
// order; io.EOF completes the stream, any other error ends it with that Error; a delivered record is
// never modified afterwards (snapshot at delivery == value at the end).
// Sink (NewCSVWriter): the records of the stream are handed to the writer in order, each once, with
// their content; exactly one count is emitted and it is the number of records written before the
// terminal; everything written has been flushed by the time the count is delivered (pinned by the
// repository's TestNewCSVWriter, which reads the underlying text in the Next callback); a write error
// ends the stream with that Error, the source's terminal is propagated otherwise; the records handed
// in are not modified.
// Not asserted (not in the statement, see DESIGN.md §10 for the stdio writer): whether records that a
// synchronous source keeps sending after a write failure are still written; what happens to a failure
// of Flush (the plugin never asks writer.Error()).

func init() {
	hook.UFInt = vUFInt
	hook.UFBool = vUFBool
	hook.Yield = vYield
	hook.ID = func(s string) int64 { return -1 }
}

// vRecords: k records of one or two fields; every field text is unique ("r<i>f<j>").
func vRecords(k int) [][]string {
	var recs [][]string
	for i := 0; i < k; i++ {
		w := 1 + vChoice("w"+vItoa(i), 2)
		rec := make([]string, w)
		for j := range rec {
			rec[j] = "r" + vItoa(i) + "f" + vItoa(j)
		}
		recs = append(recs, rec)
	}
	return recs
}

func vCopyRecords(recs [][]string) [][]string {
	out := make([][]string, len(recs))
	for i, r := range recs {
		out[i] = append([]string{}, r...)
	}
	return out
}

func vSameRecord(a, b []string) bool {
	if len(a) != len(b) {
		return false
	}
	for i := range a {
		if a[i] != b[i] {
			return false
		}
	}
	return true
}

func vC18CSVSource(n int) {
	k := vChoice("records", n+1)
	script := vRecords(k)
	want := vCopyRecords(script)
	failAt := vChoice("failAt", k+1) - 1 // -1: the script ends with io.EOF
	rd := stubcsv.NewScripted(script, failAt, vErrB)
	var refs [][]string  // the delivered slices themselves
	var snaps [][]string // their content at delivery
	terminal := 0
	var gotErr error
	sub := NewCSVReader(rd).SubscribeWithContext(context.Background(), ro.NewObserver(
		func(rec []string) {
			vAssert(terminal == 0, "NewCSVReader: a record was delivered after the terminal notification")
			refs = append(refs, rec)
			snaps = append(snaps, append([]string{}, rec...))
		},
		func(err error) { terminal += 10; gotErr = err },
		func() { terminal++ },
	))
	good := k
	if failAt >= 0 {
		good = failAt
	}
	vAssert(len(snaps) <= k, "NewCSVReader: more records emitted than read")
	vAssert(len(snaps) == good, "NewCSVReader: the number of emitted records differs from the number of records read before the end")
	for i := range snaps {
		vAssert(vSameRecord(snaps[i], want[i]), "NewCSVReader: an emitted record is not the record the reader returned at that position")
	}
	for i := range refs {
		vAssert(vSameRecord(refs[i], snaps[i]), "NewCSVReader: a record was modified after it had been delivered")
	}
	if failAt < 0 {
		vAssert(terminal == 1, "NewCSVReader: io.EOF did not complete the stream exactly once")
	} else {
		vAssert(terminal == 10 && vErrCode(gotErr) == 2, "NewCSVReader: a read failure did not surface as the Error notification that ends the stream")
	}
	sub.Unsubscribe()
	vReach("end")
}

func vhC18_csv_source_n2() { vC18CSVSource(2) }
func vhC18_csv_source_n3() { vC18CSVSource(3) }

func vC18CSVSink(n int) {
	k := vChoice("items", n+1)
	end := vChoice("end", 2)
	failAt := vChoice("failAt", n+1) - 1
	w := stubcsv.NewRecording(failAt, vErrB)
	items := vRecords(k)
	want := vCopyRecords(items)
	src := ro.NewUnsafeObservableWithContext(func(ctx context.Context, d ro.Observer[[]string]) ro.Teardown {
		for _, it := range items {
			d.NextWithContext(ctx, it)
		}
		if end == 0 {
			d.CompleteWithContext(ctx)
		} else {
			d.ErrorWithContext(ctx, vErrA)
		}
		return nil
	})
	var counts []int
	var writtenAtCount, flushedAtCount []int
	terminal := 0
	var gotErr error
	sub := NewCSVWriter(w)(src).SubscribeWithContext(context.Background(), ro.NewObserver(
		func(c int) {
			vAssert(terminal == 0, "NewCSVWriter: a count was delivered after the terminal notification")
			counts = append(counts, c)
			writtenAtCount = append(writtenAtCount, len(w.Records))
			flushedAtCount = append(flushedAtCount, w.FlushedRecords)
		},
		func(err error) { terminal += 10; gotErr = err },
		func() { terminal++ },
	))
	failed := failAt >= 0 && failAt < k
	written := k
	if failed {
		written = failAt
	}
	vAssert(len(counts) == 1, "NewCSVWriter: not exactly one count emitted")
	vAssert(counts[0] == written, "NewCSVWriter: the emitted count differs from the number of records written")
	vAssert(writtenAtCount[0] == written, "NewCSVWriter: the count was delivered before all the records had been handed to the writer (or after more)")
	vAssert(flushedAtCount[0] == written, "NewCSVWriter: the writer had not been flushed when the count was delivered")
	vAssert(len(w.Records) >= written, "NewCSVWriter: records handed to the sink were not written")
	for i := 0; i < written; i++ {
		vAssert(vSameRecord(w.Records[i], want[i]), "NewCSVWriter: the records were not written in order, each once, with their content")
	}
	if !failed {
		vAssert(len(w.Records) == k && w.Calls == k, "NewCSVWriter: a record was written more than once")
	}
	switch {
	case failed:
		vAssert(terminal == 10 && vErrCode(gotErr) == 2, "NewCSVWriter: a write failure did not surface as the Error notification that ends the stream")
	case end == 0:
		vAssert(terminal == 1, "NewCSVWriter: completion of the source was not propagated")
	default:
		vAssert(terminal == 10 && vErrCode(gotErr) == 1, "NewCSVWriter: the error of the source was not propagated")
	}
	for i := range items {
		vAssert(vSameRecord(items[i], want[i]), "NewCSVWriter: a record handed to the sink was modified")
	}
	sub.Unsubscribe()
	vReach("end")
}

func vhC18_csv_sink_n2() { vC18CSVSink(2) }
func vhC18_csv_sink_n3() { vC18CSVSink(3) }
