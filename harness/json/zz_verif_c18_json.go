package rojson

import (
	"errors"

	"github.com/samber/ro"
	"github.com/samber/ro/internal/verifrt/stubs/hook"
	stubjson "github.com/samber/ro/internal/verifrt/stubs/json"
)

// C18 (json plugin) with the standard encoding/json replaced, for the plugin's source only, by the
// contract stub /verif/shim/stubs/json: Marshal renders "Marshal(<id>)" for the item with that
// identity, Unmarshal gives its target the identity UFInt("Unmarshal", id of the text) and fails when
// the predicate Unmarshal.err holds for the text.  Checked: for every item the emitted value is what
// the (stub) function returns for THAT item; an error ends the stream with that Error after the
// values of the items before it; never more values than items; Marshal followed by Unmarshal hands
// the decoder the encoder's output for the same item; every item is decoded into a fresh target (two
// decoded pointers never alias, no target is filled twice); the values handed in (pointees, byte
// slices) are not modified.

// the texts the stub can tell apart: three documents, and what Marshal renders for the three items
var vTexts = []string{"d0", "d1", "d2", stubjson.Text(10), stubjson.Text(11), stubjson.Text(12)}

func init() {
	hook.UFInt = vUFInt
	hook.UFBool = vUFBool
	hook.Yield = vYield
	hook.ID = func(s string) int64 {
		for i, t := range vTexts {
			if t == s {
				return int64(i)
			}
		}
		return -1
	}
}

// vPickItems: identities 10..12 (their Marshal texts are vTexts[3..5]).
func vPickItems(n int) []int64 {
	var ids []int64
	for i := 0; i < n; i++ {
		ids = append(ids, int64(10+vChoice("i"+vItoa(i), 3)))
	}
	return ids
}

// vPickDocs: documents d0..d2, each in its own byte slice.
func vPickDocs(n int) ([][]byte, []int64) {
	var docs [][]byte
	var ids []int64
	for i := 0; i < n; i++ {
		k := vChoice("d"+vItoa(i), 3)
		docs = append(docs, []byte(vTexts[k]))
		ids = append(ids, int64(k))
	}
	return docs, ids
}

func vCheckMarshal(label string, got [][]byte, err error, ids []int64) {
	k := 0
	failed := false
	for _, id := range ids {
		if vUFBool("Marshal.err", id) {
			failed = true
			break
		}
		vAssert(k < len(got), label+": an encoded item is missing")
		vAssert(string(got[k]) == stubjson.Text(id), label+": the emitted text is not what the wrapped function returns for that item")
		k++
	}
	vAssert(len(got) == k, label+": more values than items encoded")
	if failed {
		vAssert(err != nil && errors.Is(err, stubjson.ErrMarshal), label+": an encoding error did not surface as the Error notification that ends the stream")
	} else {
		vAssert(err == nil, label+": an error was reported although every item was encoded")
	}
}

// vCheckUnmarshal: textIDs[i] is the id of the text the decoder must have been given for item i.
func vCheckUnmarshal(label string, got []stubjson.Item, err error, textIDs []int64) {
	k := 0
	failed := false
	for _, d := range textIDs {
		if vUFBool("Unmarshal.err", d) {
			failed = true
			break
		}
		vAssert(k < len(got), label+": a decoded item is missing")
		vAssert(got[k].ID == vUFInt("Unmarshal", d), label+": the emitted value is not what the wrapped function returns for that item")
		vAssert(got[k].Sets == 1, label+": the item was not decoded into a fresh target")
		k++
	}
	vAssert(len(got) == k, label+": more values than items decoded")
	if failed {
		vAssert(err != nil && errors.Is(err, stubjson.ErrUnmarshal), label+": a decoding error did not surface as the Error notification that ends the stream")
	} else {
		vAssert(err == nil, label+": an error was reported although every item was decoded")
	}
}

func vDocsUnchanged(label string, docs [][]byte, ids []int64) {
	for i, d := range docs {
		vAssert(string(d) == vTexts[ids[i]], label+": the byte slice handed in was modified")
	}
}

func vC18JSON(n int) {
	cnt := vChoice("n", n+1)
	switch vChoice("op", 5) {
	case 0:
		ids := vPickItems(cnt)
		var items []stubjson.Item
		for _, id := range ids {
			items = append(items, stubjson.Item{ID: id})
		}
		got, err := ro.Collect(Marshal[stubjson.Item]()(ro.FromSlice(items)))
		vCheckMarshal("Marshal", got, err, ids)
	case 1:
		ids := vPickItems(cnt)
		var items []*stubjson.Item
		for _, id := range ids {
			items = append(items, &stubjson.Item{ID: id})
		}
		got, err := ro.Collect(Marshal[*stubjson.Item]()(ro.FromSlice(items)))
		vCheckMarshal("Marshal(pointer)", got, err, ids)
		for i, it := range items {
			vAssert(it.ID == ids[i] && it.Sets == 0, "Marshal(pointer): the value handed in was modified")
		}
	case 2:
		docs, ids := vPickDocs(cnt)
		got, err := ro.Collect(Unmarshal[stubjson.Item]()(ro.FromSlice(docs)))
		vCheckUnmarshal("Unmarshal", got, err, ids)
		vDocsUnchanged("Unmarshal", docs, ids)
	case 3:
		docs, ids := vPickDocs(cnt)
		got, err := ro.Collect(Unmarshal[*stubjson.Item]()(ro.FromSlice(docs)))
		var vals []stubjson.Item
		for i, p := range got {
			vAssert(p != nil, "Unmarshal(pointer): a nil pointer was emitted for a decoded item")
			for j := 0; j < i; j++ {
				vAssert(got[j] != p, "Unmarshal(pointer): two decoded items share one target")
			}
			vals = append(vals, *p)
		}
		vCheckUnmarshal("Unmarshal(pointer)", vals, err, ids)
		vDocsUnchanged("Unmarshal(pointer)", docs, ids)
	default:
		// Marshal then Unmarshal: the decoder sees the encoder's output for the same item
		ids := vPickItems(cnt)
		var items []stubjson.Item
		for _, id := range ids {
			items = append(items, stubjson.Item{ID: id})
		}
		got, err := ro.Collect(Unmarshal[stubjson.Item]()(Marshal[stubjson.Item]()(ro.FromSlice(items))))
		var textIDs []int64
		encFailed := false
		for _, id := range ids {
			if vUFBool("Marshal.err", id) {
				encFailed = true
				break
			}
			textIDs = append(textIDs, hook.ID(stubjson.Text(id)))
			if vUFBool("Unmarshal.err", hook.ID(stubjson.Text(id))) {
				encFailed = false
				break
			}
		}
		if encFailed {
			vAssert(len(got) == len(textIDs), "Marshal+Unmarshal: the values before an encoding error are not all there")
			for i, d := range textIDs {
				vAssert(got[i].ID == vUFInt("Unmarshal", d) && got[i].Sets == 1, "Marshal+Unmarshal: the decoder was not applied to the encoder's output for the same item")
			}
			vAssert(err != nil && errors.Is(err, stubjson.ErrMarshal), "Marshal+Unmarshal: an encoding error did not surface as the Error notification that ends the stream")
		} else {
			vCheckUnmarshal("Marshal+Unmarshal", got, err, textIDs)
		}
	}
	vReach("end")
}

func vhC18_json_n2() { vC18JSON(2) }
func vhC18_json_n3() { vC18JSON(3) }
