package rostrconv

import (
	"errors"

	"github.com/samber/ro"
	"github.com/samber/ro/internal/verifrt/stubs/hook"
	stubstrconv "github.com/samber/ro/internal/verifrt/stubs/strconv"
)

// C18 (strconv plugin) with the standard strconv replaced by the contract stub
// /verif/shim/stubs/strconv: every function is an uninterpreted function of (text id, parameters)
// that fails when the predicate <name>.err holds.  Checked: for every item the emitted value is what
// the (stub) function returns for THAT item with the operator's parameters in the right positions
// (base and bitSize are symbolic), an error becomes the Error notification that ends the stream.

var vTexts = []string{"t0", "t1", "t2"}

func init() {
	hook.UFInt = vUFInt
	hook.UFBool = vUFBool
	hook.Yield = vYield
	hook.ID = func(s string) int64 {
		for i, t := range vTexts {
			if t == s {
				return int64(i)
			}
		}
		return -1
	}
}

func vPick(prefix string, n int) ([]string, []int64) {
	var items []string
	var ids []int64
	for i := 0; i < n; i++ {
		k := vChoice(prefix+vItoa(i), len(vTexts))
		items = append(items, vTexts[k])
		ids = append(ids, int64(k))
	}
	return items, ids
}

// vExpect walks the items: value(i) for the items before the first failing one, then the error.
func vExpect[T comparable](label string, got []T, err error, ids []int64, fails func(id int64) bool, value func(id int64) T, eq func(a, b T) bool) {
	k := 0
	failed := false
	for _, id := range ids {
		if fails(id) {
			failed = true
			break
		}
		vAssert(k < len(got), label+": a converted item is missing")
		vAssert(eq(got[k], value(id)), label+": the emitted value is not what the wrapped function returns for that item and those parameters")
		k++
	}
	vAssert(len(got) == k, label+": more values than items converted")
	if failed {
		vAssert(err != nil && errors.Is(err, stubstrconv.ErrSyntax), label+": a conversion error did not surface as the Error notification that ends the stream")
	} else {
		vAssert(err == nil, label+": an error was reported although every conversion succeeded")
	}
}

func vC18Strconv(n int) {
	items, ids := vPick("i", vChoice("n", n+1))
	base := vInt("base")
	bits := vInt("bits")
	vAssume(base >= 2 && base <= 36)
	vAssume(bits >= 0 && bits <= 64)
	src := ro.FromSlice(items)
	switch vChoice("op", 7) {
	case 5:
		got, err := ro.Collect(ParseUint64[string](base, bits)(src))
		vExpect("ParseUint64", got, err, ids,
			func(id int64) bool { return vUFBool("ParseUint.err", id, int64(base), int64(bits)) },
			func(id int64) uint64 { return uint64(vUFInt("ParseUint", id, int64(base), int64(bits))) },
			func(a, b uint64) bool { return a == b })
	case 6:
		// the stub's ParseFloat returns one fixed number: what is checked is which items fail, with
		// which bitSize, and that the values before the failure are delivered
		got, err := ro.Collect(ParseFloat[string](bits)(src))
		vExpect("ParseFloat", got, err, ids,
			func(id int64) bool { return vUFBool("ParseFloat.err", id, int64(bits)) },
			func(id int64) float64 { return 1.5 },
			func(a, b float64) bool { return a == b })
	case 0:
		got, err := ro.Collect(Atoi[string]()(src))
		vExpect("Atoi", got, err, ids,
			func(id int64) bool { return vUFBool("Atoi.err", id) },
			func(id int64) int { return int(vUFInt("Atoi", id)) },
			func(a, b int) bool { return a == b })
	case 1:
		got, err := ro.Collect(ParseInt[string](base, bits)(src))
		vExpect("ParseInt", got, err, ids,
			func(id int64) bool { return vUFBool("ParseInt.err", id, int64(base), int64(bits)) },
			func(id int64) int64 { return vUFInt("ParseInt", id, int64(base), int64(bits)) },
			func(a, b int64) bool { return a == b })
	case 2:
		got, err := ro.Collect(ParseUint[string](base, bits)(src))
		vExpect("ParseUint", got, err, ids,
			func(id int64) bool { return vUFBool("ParseUint.err", id, int64(base), int64(bits)) },
			func(id int64) uint64 { return uint64(vUFInt("ParseUint", id, int64(base), int64(bits))) },
			func(a, b uint64) bool { return a == b })
	case 3:
		got, err := ro.Collect(ParseBool[string]()(src))
		vExpect("ParseBool", got, err, ids,
			func(id int64) bool { return vUFBool("ParseBool.err", id) },
			func(id int64) bool { return vUFBool("ParseBool", id) },
			func(a, b bool) bool { return a == b })
	default:
		got, err := ro.Collect(Unquote()(src))
		vExpect("Unquote", got, err, ids,
			func(id int64) bool { return vUFBool("Unquote.err", id) },
			func(id int64) string { return "Unquote(" + vTexts[id] + ")" },
			func(a, b string) bool { return a == b })
	}
	vReach("end")
}

func vhC18_strconv_n2() { vC18Strconv(2) }
func vhC18_strconv_n3() { vC18Strconv(3) }

// formatting direction: concrete numbers, symbolic base is not possible in text -> small concrete ranges
func vC18Format(n int) {
	cnt := vChoice("n", n+1)
	nums := make([]int64, cnt)
	for i := range nums {
		nums[i] = int64(vChoice("v"+vItoa(i), 3)) - 1 // -1, 0, 1
	}
	base := 2 + vChoice("base", 3)
	switch vChoice("op", 7) {
	case 2:
		us := make([]uint64, cnt)
		for i := range us {
			us[i] = uint64(nums[i] + 1)
		}
		got, err := ro.Collect(FormatUint[string](base)(ro.FromSlice(us)))
		vAssert(err == nil && len(got) == cnt, "FormatUint: not one text per item")
		for i := range got {
			vAssert(got[i] == stubstrconv.FormatUint(us[i], base), "FormatUint: the emitted text is not what the wrapped function returns for that item and base")
		}
	case 3:
		bs := make([]bool, cnt)
		for i := range bs {
			bs[i] = nums[i] > 0
		}
		got, err := ro.Collect(FormatBool()(ro.FromSlice(bs)))
		vAssert(err == nil && len(got) == cnt, "FormatBool: not one text per item")
		for i := range got {
			vAssert(got[i] == stubstrconv.FormatBool(bs[i]), "FormatBool: the emitted text is not what the wrapped function returns for that item")
		}
	case 4:
		ss := make([]string, cnt)
		for i := range ss {
			ss[i] = vTexts[nums[i]+1]
		}
		got, err := ro.Collect(Quote()(ro.FromSlice(ss)))
		vAssert(err == nil && len(got) == cnt, "Quote: not one text per item")
		for i := range got {
			vAssert(got[i] == stubstrconv.Quote(ss[i]), "Quote: the emitted text is not what the wrapped function returns for that item")
		}
	case 5:
		rs := make([]rune, cnt)
		for i := range rs {
			rs[i] = rune(65 + nums[i])
		}
		got, err := ro.Collect(QuoteRune()(ro.FromSlice(rs)))
		vAssert(err == nil && len(got) == cnt, "QuoteRune: not one text per item")
		for i := range got {
			vAssert(got[i] == stubstrconv.QuoteRune(rs[i]), "QuoteRune: the emitted text is not what the wrapped function returns for that item")
		}
	case 6:
		fs := make([]float64, cnt)
		for i := range fs {
			fs[i] = float64(nums[i])
		}
		prec, bits := vChoice("prec", 3), 32*(1+vChoice("bits", 2))
		got, err := ro.Collect(FormatFloat('f', prec, bits)(ro.FromSlice(fs)))
		vAssert(err == nil && len(got) == cnt, "FormatFloat: not one text per item")
		for i := range got {
			vAssert(got[i] == stubstrconv.FormatFloat(fs[i], 'f', prec, bits), "FormatFloat: the emitted text is not what the wrapped function returns for those parameters")
		}
	case 0:
		got, err := ro.Collect(FormatInt[string](base)(ro.FromSlice(nums)))
		vAssert(err == nil && len(got) == cnt, "FormatInt: not one text per item")
		for i := range got {
			vAssert(got[i] == stubstrconv.FormatInt(nums[i], base), "FormatInt: the emitted text is not what the wrapped function returns for that item and base")
		}
	default:
		ints := make([]int, cnt)
		for i := range ints {
			ints[i] = int(nums[i])
		}
		got, err := ro.Collect(Itoa()(ro.FromSlice(ints)))
		vAssert(err == nil && len(got) == cnt, "Itoa: not one text per item")
		for i := range got {
			vAssert(got[i] == stubstrconv.Itoa(ints[i]), "Itoa: the emitted text is not what the wrapped function returns for that item")
		}
	}
	vReach("end")
}

func vhC18_format_n2() { vC18Format(2) }
