package rotemplate

import (
	"context"
	"errors"

	"github.com/samber/ro"
	"github.com/samber/ro/internal/verifrt/stubs/hook"
	stubtemplate "github.com/samber/ro/internal/verifrt/stubs/template"
)

// C18 (template plugin) with text/template and html/template replaced by the contract stub
// /verif/shim/stubs/template: Execute renders an item v as "<v>" in three writes with a scheduling
// point in the middle and fails when the uninterpreted predicate Execute.err(v) holds.  Checked:
// the emitted text is what the (stub) library returns for that item, an execution error becomes
// the Error notification and ends the stream, and no state is shared between subscriptions or
// between pipelines built from one operator value — also when two of them render concurrently.

func init() {
	hook.UFInt = vUFInt
	hook.UFBool = vUFBool
	hook.Yield = vYield
	hook.ID = func(s string) int64 { return -1 }
}

type vStrRec struct {
	vals     []string
	terminal int
	err      error
}

func (r *vStrRec) obs() ro.Observer[string] {
	return ro.NewObserver(
		func(v string) { r.vals = append(r.vals, v) },
		func(err error) { r.terminal += 10; r.err = err },
		func() { r.terminal++ },
	)
}

func vRender(v int64) string { return "<" + vItoa(int(v)) + ">" }

func vTplOp(kind int) func(ro.Observable[int64]) ro.Observable[string] {
	if kind == 0 {
		return TextTemplate[int64]("{{.}}")
	}
	return HTMLTemplate[int64]("{{.}}")
}

func vItems(prefix string, n int) []int64 {
	items := make([]int64, n)
	for i := range items {
		items[i] = int64(1 + vChoice(prefix+vItoa(i), 3)) // items 1..3 (concrete: they become text)
	}
	return items
}

func vCheckRendered(label string, rec *vStrRec, items []int64, completes bool) {
	k := 0
	failed := false
	for _, it := range items {
		if vUFBool("Execute.err", it) {
			failed = true
			break
		}
		vAssert(k < len(rec.vals), label+": a rendered item is missing")
		vAssert(rec.vals[k] == vRender(it), label+": the emitted text is not what the template returns for that item")
		k++
	}
	vAssert(len(rec.vals) == k, label+": more values than items rendered")
	if failed {
		vAssert(rec.terminal == 10 && errors.Is(rec.err, stubtemplate.ErrExec), label+": an execution error did not surface as the Error notification that ends the stream")
	} else if completes {
		vAssert(rec.terminal == 1, label+": the completion of the source was not propagated")
	}
}

func vC18Template(n int) {
	kind := vChoice("kind", 2)
	items := vItems("i", vChoice("n", n+1))
	op := vTplOp(kind)
	rec := &vStrRec{}
	op(ro.FromSlice(items)).SubscribeWithContext(context.Background(), rec.obs())
	vCheckRendered("template", rec, items, true)
	// a second subscription of the same pipeline, and a second pipeline from the same operator value
	rec2 := &vStrRec{}
	op(ro.FromSlice(items)).SubscribeWithContext(context.Background(), rec2.obs())
	vCheckRendered("template (operator value applied again)", rec2, items, true)
	vReach("end")
}

func vhC18_template_n2() { vC18Template(2) }
func vhC18_template_n3() { vC18Template(3) }

// two pipelines built from ONE operator value render concurrently
func vC18TemplateConc() {
	kind := vChoice("kind", 2)
	op := vTplOp(kind)
	itemsA := vItems("a", 1+vChoice("na", 2))
	itemsB := vItems("b", 1+vChoice("nb", 2))
	recA, recB := &vStrRec{}, &vStrRec{}
	pa, pb := op(ro.FromSlice(itemsA)), op(ro.FromSlice(itemsB))
	vGo(func() { pa.SubscribeWithContext(context.Background(), recA.obs()) })
	vGo(func() { pb.SubscribeWithContext(context.Background(), recB.obs()) })
	vQuiesce()
	vCheckRendered("template (concurrent pipelines from one operator value)", recA, itemsA, true)
	vCheckRendered("template (concurrent pipelines from one operator value)", recB, itemsB, true)
	vReach("end")
}

func vhC18_templateconc_2() { vC18TemplateConc() }
