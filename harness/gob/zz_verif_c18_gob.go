package rogob

import (
	"errors"

	"github.com/samber/ro"
	stubgob "github.com/samber/ro/internal/verifrt/stubs/gob"
	"github.com/samber/ro/internal/verifrt/stubs/hook"
)

// C18 (gob plugin) with the standard encoding/gob replaced, for the plugin's source only, by the
// contract stub /verif/shim/stubs/gob: an Encoder writes "Encode(<id>)" (in two writes) to its writer
// for the item with that identity and fails when the predicate Encode.err holds; a Decoder reads all
// its reader has, gives its target the identity UFInt("Decode", id of the bytes) and fails when the
// predicate Decode.err holds for the bytes (bytes.Buffer stays the real one).  Checked: for every item
// the emitted value is what the (stub) encoder / decoder produces for THAT item - the emitted bytes
// are compared at the end of the run, so a buffer shared between items shows; an error ends the
// stream with that Error after the values of the items before it; never more values than items;
// Encode followed by Decode hands the decoder the encoder's output for the same item; every item is
// decoded into a fresh target (two decoded pointers never alias, no target is filled twice); the
// values handed in (pointees, byte slices) are not modified.

// the texts the stub can tell apart: three documents, and what an encoder writes for the three items
var vTexts = []string{"d0", "d1", "d2", stubgob.Text(10), stubgob.Text(11), stubgob.Text(12)}

func init() {
	hook.UFInt = vUFInt
	hook.UFBool = vUFBool
	hook.Yield = vYield
	hook.ID = func(s string) int64 {
		for i, t := range vTexts {
			if t == s {
				return int64(i)
			}
		}
		return -1
	}
}

// vPickItems: identities 10..12 (their encodings are vTexts[3..5]).
func vPickItems(n int) []int64 {
	var ids []int64
	for i := 0; i < n; i++ {
		ids = append(ids, int64(10+vChoice("i"+vItoa(i), 3)))
	}
	return ids
}

// vPickDocs: documents d0..d2, each in its own byte slice.
func vPickDocs(n int) ([][]byte, []int64) {
	var docs [][]byte
	var ids []int64
	for i := 0; i < n; i++ {
		k := vChoice("d"+vItoa(i), 3)
		docs = append(docs, []byte(vTexts[k]))
		ids = append(ids, int64(k))
	}
	return docs, ids
}

func vCheckEncode(label string, got [][]byte, err error, ids []int64) {
	k := 0
	failed := false
	for _, id := range ids {
		if vUFBool("Encode.err", id) {
			failed = true
			break
		}
		vAssert(k < len(got), label+": an encoded item is missing")
		vAssert(string(got[k]) == stubgob.Text(id), label+": the emitted text is not what the wrapped function returns for that item")
		k++
	}
	vAssert(len(got) == k, label+": more values than items encoded")
	// one buffer per item: writing into one emitted slice must not show in another
	for i := range got {
		for j := range got[i] {
			got[i][j] = 'x'
		}
		for j := i + 1; j < len(got); j++ {
			vAssert(len(got[j]) == 0 || got[j][0] == 'E', label+": two emitted encodings share one buffer")
		}
	}
	if failed {
		vAssert(err != nil && errors.Is(err, stubgob.ErrEncode), label+": an encoding error did not surface as the Error notification that ends the stream")
	} else {
		vAssert(err == nil, label+": an error was reported although every item was encoded")
	}
}

// vCheckDecode: textIDs[i] is the id of the text the decoder must have been given for item i.
func vCheckDecode(label string, got []stubgob.Item, err error, textIDs []int64) {
	k := 0
	failed := false
	for _, d := range textIDs {
		if vUFBool("Decode.err", d) {
			failed = true
			break
		}
		vAssert(k < len(got), label+": a decoded item is missing")
		vAssert(got[k].ID == vUFInt("Decode", d), label+": the emitted value is not what the wrapped function returns for that item")
		vAssert(got[k].Sets == 1, label+": the item was not decoded into a fresh target")
		k++
	}
	vAssert(len(got) == k, label+": more values than items decoded")
	if failed {
		vAssert(err != nil && errors.Is(err, stubgob.ErrDecode), label+": a decoding error did not surface as the Error notification that ends the stream")
	} else {
		vAssert(err == nil, label+": an error was reported although every item was decoded")
	}
}

func vDocsUnchanged(label string, docs [][]byte, ids []int64) {
	for i, d := range docs {
		vAssert(string(d) == vTexts[ids[i]], label+": the byte slice handed in was modified")
	}
}

func vC18Gob(n int) {
	cnt := vChoice("n", n+1)
	switch vChoice("op", 5) {
	case 0:
		ids := vPickItems(cnt)
		var items []stubgob.Item
		for _, id := range ids {
			items = append(items, stubgob.Item{ID: id})
		}
		got, err := ro.Collect(Encode[stubgob.Item]()(ro.FromSlice(items)))
		vCheckEncode("Encode", got, err, ids)
	case 1:
		ids := vPickItems(cnt)
		var items []*stubgob.Item
		for _, id := range ids {
			items = append(items, &stubgob.Item{ID: id})
		}
		got, err := ro.Collect(Encode[*stubgob.Item]()(ro.FromSlice(items)))
		vCheckEncode("Encode(pointer)", got, err, ids)
		for i, it := range items {
			vAssert(it.ID == ids[i] && it.Sets == 0, "Encode(pointer): the value handed in was modified")
		}
	case 2:
		docs, ids := vPickDocs(cnt)
		got, err := ro.Collect(Decode[stubgob.Item]()(ro.FromSlice(docs)))
		vCheckDecode("Decode", got, err, ids)
		vDocsUnchanged("Decode", docs, ids)
	case 3:
		docs, ids := vPickDocs(cnt)
		got, err := ro.Collect(Decode[*stubgob.Item]()(ro.FromSlice(docs)))
		var vals []stubgob.Item
		for i, p := range got {
			vAssert(p != nil, "Decode(pointer): a nil pointer was emitted for a decoded item")
			for j := 0; j < i; j++ {
				vAssert(got[j] != p, "Decode(pointer): two decoded items share one target")
			}
			vals = append(vals, *p)
		}
		vCheckDecode("Decode(pointer)", vals, err, ids)
		vDocsUnchanged("Decode(pointer)", docs, ids)
	default:
		// Encode then Decode: the decoder sees the encoder's output for the same item
		ids := vPickItems(cnt)
		var items []stubgob.Item
		for _, id := range ids {
			items = append(items, stubgob.Item{ID: id})
		}
		got, err := ro.Collect(Decode[stubgob.Item]()(Encode[stubgob.Item]()(ro.FromSlice(items))))
		var textIDs []int64
		encFailed := false
		for _, id := range ids {
			if vUFBool("Encode.err", id) {
				encFailed = true
				break
			}
			textIDs = append(textIDs, hook.ID(stubgob.Text(id)))
			if vUFBool("Decode.err", hook.ID(stubgob.Text(id))) {
				encFailed = false
				break
			}
		}
		if encFailed {
			vAssert(len(got) == len(textIDs), "Encode+Decode: the values before an encoding error are not all there")
			for i, d := range textIDs {
				vAssert(got[i].ID == vUFInt("Decode", d) && got[i].Sets == 1, "Encode+Decode: the decoder was not applied to the encoder's output for the same item")
			}
			vAssert(err != nil && errors.Is(err, stubgob.ErrEncode), "Encode+Decode: an encoding error did not surface as the Error notification that ends the stream")
		} else {
			vCheckDecode("Encode+Decode", got, err, textIDs)
		}
	}
	vReach("end")
}

func vhC18_gob_n2() { vC18Gob(2) }
func vhC18_gob_n3() { vC18Gob(3) }
