package roratelimit

import (
	"context"
	"time"

	"github.com/ulule/limiter/v3"
)

// C20 (ulule): the third-party store is replaced by a harness-side store
// implementing limiter.Store as a per-key counter with a symbolic limit (one
// window) and an injectable error.  Forwarded <=> not Reached; per-key order;
// keys independent; terminal propagation; store error => Error.

type vStore struct {
	counts  map[string]int64
	limit   int64
	failAt  int // call index at which the store fails (-1 never)
	calls   int
	keys    []string
}

func (s *vStore) Get(ctx context.Context, key string, rate limiter.Rate) (limiter.Context, error) {
	i := s.calls
	s.calls++
	s.keys = append(s.keys, key)
	if i == s.failAt {
		return limiter.Context{}, vErrB
	}
	s.counts[key]++
	n := s.counts[key]
	return limiter.Context{Limit: rate.Limit, Remaining: s.limit - n, Reached: n > s.limit}, nil
}
func (s *vStore) Peek(ctx context.Context, key string, rate limiter.Rate) (limiter.Context, error) {
	return limiter.Context{}, nil
}
func (s *vStore) Reset(ctx context.Context, key string, rate limiter.Rate) (limiter.Context, error) {
	return limiter.Context{}, nil
}
func (s *vStore) Increment(ctx context.Context, key string, count int64, rate limiter.Rate) (limiter.Context, error) {
	return limiter.Context{}, nil
}

func vKeyOf(v int64) string {
	if vUFBool("key", v) {
		return "a"
	}
	return "b"
}

func vC20Ulule(L int) {
	in := vLegalScript("s", L)
	limit := vInt64("limit")
	vAssume(limit >= 0)
	vAssume(limit <= int64(L))
	st := &vStore{counts: map[string]int64{}, limit: limit, failAt: vChoice("failAt", L+1) - 1}
	lim := limiter.New(st, limiter.Rate{Period: time.Second, Limit: limit})
	src := &vSource{cold: vChoice("hot", 2) == 0, script: in}
	obs := NewRateLimiter[int64](lim, vKeyOf)(src.obs())
	rec := &vRecorder{name: "g"}
	obs.SubscribeWithContext(context.Background(), vObs(rec, vFlatInt))
	if !src.cold {
		for _, s := range in {
			src.emit(s)
		}
	}
	// reference
	var want []vEv
	cnt := map[string]int64{}
	failed := false
	for i, v := range vVals(in) {
		if i == st.failAt {
			want = append(want, vEv{kind: vkError, err: vErrB})
			failed = true
			break
		}
		k := vKeyOf(v)
		cnt[k]++
		if cnt[k] <= limit {
			want = append(want, vEv{kind: vkNext, vals: []int64{v}})
		}
	}
	if !failed {
		switch vEnd(in) {
		case vkComplete:
			want = append(want, vEv{kind: vkComplete})
		case vkError:
			want = append(want, vEv{kind: vkError, err: vErrA})
		}
	}
	vCheckGrammar("ulule limiter", rec)
	vSameEvents("ulule limiter", rec.evs, want)
	// the key handed to the store is the key of the item, in order
	for i, k := range st.keys {
		vAssert(k == vKeyOf(vVals(in)[i]), "ulule limiter: the store was asked about a different key than the item's")
	}
	if rec.terminals() > 0 {
		vAssert(src.live == 0, "ulule limiter: the source was not released after the output terminated")
	}
	vReach("end")
}

func vhC20_ulule_L2() { vC20Ulule(2) }
func vhC20_ulule_L3() { vC20Ulule(3) }
