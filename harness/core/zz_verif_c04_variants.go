package ro

import "context"

// C04(b): "The plain, indexed, context-aware and indexed-context-aware variants
// of an operator, its aliases, and the ... typed PipeN/PipeOpN compositions are
// observationally identical, and a chain behaves as the composition of its
// parts."
//
// vVariantPairs lists pairs of pipeline builders over the same kind of source.
// The harness picks one pair, builds each side over fresh cold probes playing
// the SAME legal script(s), and asserts that the two recorders hold the same
// notifications (and that the user callbacks that only have side effects — the
// Tap/Do family — were invoked with the same arguments in the same order, and
// that both sides subscribed their sources the same number of times).
//
// The user callbacks of both sides are the same uninterpreted functions.  A
// plain operator has no index, so when it is compared with an indexed variant
// the indexed callback ignores its index; the indexed variants are compared
// with each other (I <-> IWithContext) with callbacks that do use the index.
//
// NOT covered: the reflective Pipe / PipeOp (pipe.go:28-69, 1219-1223) — they
// validate and apply their operators through package reflect, which the engine
// does not model; only the typed Pipe1..3 / PipeOp1..3 are compared here.

type vVarCtx struct {
	src []Observable[int64] // fresh cold probes of this side: src[0] plays script s, src[1] script t
	log *vRecorder          // side-effect log of this side (Tap/Do callbacks)
	p   [4]int64            // symbolic parameters, the same on both sides
}

type vVariantPair struct {
	name  string
	nsrc  int  // number of source probes used (0, 1 or 2)
	async bool // the operator waits inside subscribe (Concat): Subscribe runs in its own thread
	mkA   func(c *vVarCtx) vPipeline
	mkB   func(c *vVarCtx) vPipeline
}

// ---------------------------------------------------------------------------
// user callbacks: "f" projection, "g" accumulator, "p" predicate (vCbP* of the
// filter batch), "k" key selector, "fe" failure predicate of MapErr

func vVF(v int64) int64          { vFP("f"); return vUFInt("f", v) }
func vVFI(v, i int64) int64      { vFP("f"); return vUFInt("f", v, i) }
func vVG(acc, v int64) int64     { vFP("g"); return vUFInt("g", acc, v) }
func vVGI(acc, v, i int64) int64 { vFP("g"); return vUFInt("g", acc, v, i) }
func vVK(v int64) int64          { vFP("k"); return vUFInt("k", v) }
func vVKI(v, i int64) int64      { vFP("k"); return vUFInt("k", v, i) }
func vVFE(v int64) (int64, error) {
	vFP("f")
	if vUFBool("fe", v) {
		return 0, vErrB
	}
	return vUFInt("f", v), nil
}
func vVFEI(v, i int64) (int64, error) {
	vFP("f")
	if vUFBool("fe", v, i) {
		return 0, vErrB
	}
	return vUFInt("f", v, i), nil
}

// projections of the ToMap variants over one key log per side (see vKeyLog in
// the transform batch): key "k", value "w".
func vVKW(log *vKeyLog, v int64) (int64, int64) {
	vFP("f")
	k := vUFInt("k", v)
	log.keys = append(log.keys, k)
	return k, vUFInt("w", v)
}
func vVKWI(log *vKeyLog, v, i int64) (int64, int64) {
	vFP("f")
	k := vUFInt("k", v, i)
	log.keys = append(log.keys, k)
	return k, vUFInt("w", v, i)
}

// vVGroups flattens a stream of groups: every value is tagged with the rank of
// its group (order of creation), the groups being merged as they come.
func vVGroups(groups Observable[Observable[int64]]) Observable[[2]int64] {
	return MergeAll[[2]int64]()(MapI(func(g Observable[int64], gi int64) Observable[[2]int64] {
		return Map(func(v int64) [2]int64 { return [2]int64{gi, v} })(g)
	})(groups))
}

// side-effect loggers of the Tap/Do family
func vVLogN(c *vVarCtx) func(int64) {
	return func(v int64) { vFP("tn"); c.log.enter(vkNext, []int64{v}, nil, nil) }
}
func vVLogE(c *vVarCtx) func(error) {
	return func(err error) { vFP("te"); c.log.enter(vkError, nil, err, nil) }
}
func vVLogC(c *vVarCtx) func() { return func() { vFP("tc"); c.log.enter(vkComplete, nil, nil, nil) } }
func vVLogNC(c *vVarCtx) func(context.Context, int64) {
	return func(ctx context.Context, v int64) { vFP("tn"); c.log.enter(vkNext, []int64{v}, nil, ctx) }
}
func vVLogEC(c *vVarCtx) func(context.Context, error) {
	return func(ctx context.Context, err error) { vFP("te"); c.log.enter(vkError, nil, err, ctx) }
}
func vVLogCC(c *vVarCtx) func(context.Context) {
	return func(ctx context.Context) { vFP("tc"); c.log.enter(vkComplete, nil, nil, ctx) }
}

// vVMark logs a marker row {tag}: subscribe (1) / finalize (2) callbacks.
func vVMark(c *vVarCtx, tag int64) func() {
	return func() { c.log.enter(vkNext, []int64{tag}, nil, nil) }
}

// shorthand for single-source pairs
func vV1[T any](name string, flat func(T) []int64, a, b func(c *vVarCtx) Observable[T]) vVariantPair {
	return vVariantPair{name: name, nsrc: 1,
		mkA: func(c *vVarCtx) vPipeline { return vPipe(a(c), flat) },
		mkB: func(c *vVarCtx) vPipeline { return vPipe(b(c), flat) }}
}

// shorthand for single-source pairs of plain operators func(Observable[int64]) Observable[T]
func vVOp[T any](name string, flat func(T) []int64, a, b func(c *vVarCtx) func(Observable[int64]) Observable[T]) vVariantPair {
	return vV1(name, flat,
		func(c *vVarCtx) Observable[T] { return a(c)(c.src[0]) },
		func(c *vVarCtx) Observable[T] { return b(c)(c.src[0]) })
}

type vOpI = func(Observable[int64]) Observable[int64]
type vOpB = func(Observable[int64]) Observable[bool]
type vOpM = func(Observable[int64]) Observable[map[int64]int64]

// vVFam builds the three pairs of a four-variant family:
//
//	X <-> XI (index ignored), X <-> XWithContext, XI <-> XIWithContext (index used)
func vVFam[T any](name string, flat func(T) []int64,
	plain, plainAsI, plainAsC, idx, idxAsIC func(c *vVarCtx) func(Observable[int64]) Observable[T]) []vVariantPair {
	return []vVariantPair{
		vVOp(name+" <-> "+name+"I", flat, plain, plainAsI),
		vVOp(name+" <-> "+name+"WithContext", flat, plain, plainAsC),
		vVOp(name+"I <-> "+name+"IWithContext", flat, idx, idxAsIC),
	}
}

func vVConst[T any](op func(Observable[int64]) Observable[T]) func(c *vVarCtx) func(Observable[int64]) Observable[T] {
	return func(*vVarCtx) func(Observable[int64]) Observable[T] { return op }
}

var vVariantPairs []vVariantPair

func init() {
	add := func(ps ...vVariantPair) { vVariantPairs = append(vVariantPairs, ps...) }

	// ---- Map ------------------------------------------------------------
	add(vVFam("Map", vFlatInt,
		vVConst(Map(vVF)),
		vVConst(MapI(func(v, i int64) int64 { return vVF(v) })),
		vVConst(MapWithContext(func(ctx context.Context, v int64) (context.Context, int64) { return ctx, vVF(v) })),
		vVConst(MapI(vVFI)),
		vVConst(MapIWithContext(func(ctx context.Context, v, i int64) (context.Context, int64) { return ctx, vVFI(v, i) })),
	)...)

	// ---- Filter ---------------------------------------------------------
	add(vVFam("Filter", vFlatInt,
		vVConst(Filter(vCbP)),
		vVConst(FilterI(func(v, i int64) bool { return vCbP(v) })),
		vVConst(FilterWithContext(vCbPC)),
		vVConst(FilterI(vCbPI)),
		vVConst(FilterIWithContext(vCbPIC)),
	)...)

	// ---- Scan / Reduce (seed p[0]) --------------------------------------
	add(vVFam("Scan", vFlatInt,
		func(c *vVarCtx) vOpI { return Scan(vVG, c.p[0]) },
		func(c *vVarCtx) vOpI { return ScanI(func(acc, v, i int64) int64 { return vVG(acc, v) }, c.p[0]) },
		func(c *vVarCtx) vOpI {
			return ScanWithContext(func(ctx context.Context, acc, v int64) (context.Context, int64) { return ctx, vVG(acc, v) }, c.p[0])
		},
		func(c *vVarCtx) vOpI { return ScanI(vVGI, c.p[0]) },
		func(c *vVarCtx) vOpI {
			return ScanIWithContext(func(ctx context.Context, acc, v, i int64) (context.Context, int64) { return ctx, vVGI(acc, v, i) }, c.p[0])
		},
	)...)
	add(vVFam("Reduce", vFlatInt,
		func(c *vVarCtx) vOpI { return Reduce(vVG, c.p[0]) },
		func(c *vVarCtx) vOpI { return ReduceI(func(acc, v, i int64) int64 { return vVG(acc, v) }, c.p[0]) },
		func(c *vVarCtx) vOpI {
			return ReduceWithContext(func(ctx context.Context, acc, v int64) (context.Context, int64) { return ctx, vVG(acc, v) }, c.p[0])
		},
		func(c *vVarCtx) vOpI { return ReduceI(vVGI, c.p[0]) },
		func(c *vVarCtx) vOpI {
			return ReduceIWithContext(func(ctx context.Context, acc, v, i int64) (context.Context, int64) { return ctx, vVGI(acc, v, i) }, c.p[0])
		},
	)...)

	// ---- predicate families whose WithContext form returns (ctx, bool) --
	add(vVFam("TakeWhile", vFlatInt,
		vVConst(TakeWhile(vCbP)), vVConst(TakeWhileI(func(v, i int64) bool { return vCbP(v) })), vVConst(TakeWhileWithContext(vCbPC)),
		vVConst(TakeWhileI(vCbPI)), vVConst(TakeWhileIWithContext(vCbPIC)))...)
	add(vVFam("SkipWhile", vFlatInt,
		vVConst(SkipWhile(vCbP)), vVConst(SkipWhileI(func(v, i int64) bool { return vCbP(v) })), vVConst(SkipWhileWithContext(vCbPC)),
		vVConst(SkipWhileI(vCbPI)), vVConst(SkipWhileIWithContext(vCbPIC)))...)
	add(vVFam("First", vFlatInt,
		vVConst(First(vCbP)), vVConst(FirstI(func(v, i int64) bool { return vCbP(v) })), vVConst(FirstWithContext(vCbPC)),
		vVConst(FirstI(vCbPI)), vVConst(FirstIWithContext(vCbPIC)))...)
	add(vVFam("Last", vFlatInt,
		vVConst(Last(vCbP)), vVConst(LastI(func(v, i int64) bool { return vCbP(v) })), vVConst(LastWithContext(vCbPC)),
		vVConst(LastI(vCbPI)), vVConst(LastIWithContext(vCbPIC)))...)

	// ---- predicate families whose WithContext form returns bool ---------
	add(vVFam("All", vFlatBool,
		vVConst(All(vCbP)), vVConst(AllI(func(v, i int64) bool { return vCbP(v) })), vVConst(AllWithContext(vCbPCb)),
		vVConst(AllI(vCbPI)), vVConst(AllIWithContext(vCbPICb)))...)
	add(vVFam("Contains", vFlatBool,
		vVConst(Contains(vCbP)), vVConst(ContainsI(func(v, i int64) bool { return vCbP(v) })), vVConst(ContainsWithContext(vCbPCb)),
		vVConst(ContainsI(vCbPI)), vVConst(ContainsIWithContext(vCbPICb)))...)
	add(vVFam("Find", vFlatInt,
		vVConst(Find(vCbP)), vVConst(FindI(func(v, i int64) bool { return vCbP(v) })), vVConst(FindWithContext(vCbPCb)),
		vVConst(FindI(vCbPI)), vVConst(FindIWithContext(vCbPICb)))...)

	// ---- DistinctBy (no indexed variants) -------------------------------
	add(vVOp("DistinctBy <-> DistinctByWithContext", vFlatInt,
		vVConst(DistinctBy(vVK)),
		vVConst(DistinctByWithContext(func(ctx context.Context, v int64) (context.Context, int64) { return ctx, vVK(v) }))))

	// ---- MapErr ---------------------------------------------------------
	add(vVFam("MapErr", vFlatInt,
		vVConst(MapErr(vVFE)),
		vVConst(MapErrI(func(v, i int64) (int64, error) { return vVFE(v) })),
		vVConst(MapErrWithContext(func(ctx context.Context, v int64) (int64, context.Context, error) {
			r, err := vVFE(v)
			return r, ctx, err
		})),
		vVConst(MapErrI(vVFEI)),
		vVConst(MapErrIWithContext(func(ctx context.Context, v, i int64) (int64, context.Context, error) {
			r, err := vVFEI(v, i)
			return r, ctx, err
		})),
	)...)

	// ---- ToMap (one key log per side: the map is flattened in key-creation order)
	toMap := func(name string, a, b func(log *vKeyLog) vOpM) vVariantPair {
		side := func(mk func(log *vKeyLog) vOpM) func(c *vVarCtx) vPipeline {
			return func(c *vVarCtx) vPipeline {
				log := &vKeyLog{}
				return vPipe(mk(log)(c.src[0]), log.flat)
			}
		}
		return vVariantPair{name: name, nsrc: 1, mkA: side(a), mkB: side(b)}
	}
	toMapPlain := func(log *vKeyLog) vOpM { return ToMap(func(v int64) (int64, int64) { return vVKW(log, v) }) }
	toMapIdx := func(log *vKeyLog) vOpM { return ToMapI(func(v, i int64) (int64, int64) { return vVKWI(log, v, i) }) }
	add(
		toMap("ToMap <-> ToMapI", toMapPlain, func(log *vKeyLog) vOpM {
			return ToMapI(func(v, i int64) (int64, int64) { return vVKW(log, v) })
		}),
		toMap("ToMap <-> ToMapWithContext", toMapPlain, func(log *vKeyLog) vOpM {
			return ToMapWithContext(func(ctx context.Context, v int64) (int64, int64) { return vVKW(log, v) })
		}),
		toMap("ToMapI <-> ToMapIWithContext", toMapIdx, func(log *vKeyLog) vOpM {
			return ToMapIWithContext(func(ctx context.Context, v, i int64) (int64, int64) { return vVKWI(log, v, i) })
		}),
	)

	// ---- GroupBy: every value tagged with the rank of its group ----------
	groupBy := func(name string, a, b func(Observable[int64]) Observable[Observable[int64]]) vVariantPair {
		return vV1(name, vFlatPair,
			func(c *vVarCtx) Observable[[2]int64] { return vVGroups(a(c.src[0])) },
			func(c *vVarCtx) Observable[[2]int64] { return vVGroups(b(c.src[0])) })
	}
	add(
		groupBy("GroupBy <-> GroupByI", GroupBy(vVK), GroupByI(func(v, i int64) int64 { return vVK(v) })),
		groupBy("GroupBy <-> GroupByWithContext", GroupBy(vVK),
			GroupByWithContext(func(ctx context.Context, v int64) (context.Context, int64) { return ctx, vVK(v) })),
		groupBy("GroupByI <-> GroupByIWithContext", GroupByI(vVKI),
			GroupByIWithContext(func(ctx context.Context, v, i int64) (context.Context, int64) { return ctx, vVKI(v, i) })),
	)

	// ---- aliases: Do <-> Tap ------------------------------------------------
	add(
		vVOp("Do <-> Tap", vFlatInt,
			func(c *vVarCtx) vOpI { return Do(vVLogN(c), vVLogE(c), vVLogC(c)) },
			func(c *vVarCtx) vOpI { return Tap(vVLogN(c), vVLogE(c), vVLogC(c)) }),
		vVOp("DoWithContext <-> TapWithContext", vFlatInt,
			func(c *vVarCtx) vOpI { return DoWithContext(vVLogNC(c), vVLogEC(c), vVLogCC(c)) },
			func(c *vVarCtx) vOpI { return TapWithContext(vVLogNC(c), vVLogEC(c), vVLogCC(c)) }),
		vVOp("Tap <-> TapWithContext", vFlatInt,
			func(c *vVarCtx) vOpI { return Tap(vVLogN(c), vVLogE(c), vVLogC(c)) },
			func(c *vVarCtx) vOpI { return TapWithContext(vVLogNC(c), vVLogEC(c), vVLogCC(c)) }),
		vVOp("DoOnNext <-> TapOnNext", vFlatInt,
			func(c *vVarCtx) vOpI { return DoOnNext(vVLogN(c)) },
			func(c *vVarCtx) vOpI { return TapOnNext(vVLogN(c)) }),
		vVOp("DoOnError <-> TapOnError", vFlatInt,
			func(c *vVarCtx) vOpI { return DoOnError[int64](vVLogE(c)) },
			func(c *vVarCtx) vOpI { return TapOnError[int64](vVLogE(c)) }),
		vVOp("DoOnComplete <-> TapOnComplete", vFlatInt,
			func(c *vVarCtx) vOpI { return DoOnComplete[int64](vVLogC(c)) },
			func(c *vVarCtx) vOpI { return TapOnComplete[int64](vVLogC(c)) }),
		vVOp("DoOnSubscribe <-> TapOnSubscribe", vFlatInt,
			func(c *vVarCtx) vOpI { return DoOnSubscribe[int64](vVMark(c, 1)) },
			func(c *vVarCtx) vOpI { return TapOnSubscribe[int64](vVMark(c, 1)) }),
		vVOp("DoOnFinalize <-> TapOnFinalize", vFlatInt,
			func(c *vVarCtx) vOpI { return DoOnFinalize[int64](vVMark(c, 2)) },
			func(c *vVarCtx) vOpI { return TapOnFinalize[int64](vVMark(c, 2)) }),
		// Tap(n, e, c) against the three single-callback forms chained
		vVOp("Tap <-> TapOnNext+TapOnError+TapOnComplete", vFlatInt,
			func(c *vVarCtx) vOpI { return Tap(vVLogN(c), vVLogE(c), vVLogC(c)) },
			func(c *vVarCtx) vOpI {
				return PipeOp3(TapOnNext(vVLogN(c)), TapOnError[int64](vVLogE(c)), TapOnComplete[int64](vVLogC(c)))
			}),
	)

	// ---- aliases: Of <-> Just (source-less; values p[0..2]) ---------------
	add(
		vVariantPair{name: "Of <-> Just", nsrc: 0,
			mkA: func(c *vVarCtx) vPipeline { return vPipe(Of(c.p[0], c.p[1], c.p[2]), vFlatInt) },
			mkB: func(c *vVarCtx) vPipeline { return vPipe(Just(c.p[0], c.p[1], c.p[2]), vFlatInt) }},
		vVariantPair{name: "Of() <-> Just()", nsrc: 0,
			mkA: func(c *vVarCtx) vPipeline { return vPipe(Of[int64](), vFlatInt) },
			mkB: func(c *vVarCtx) vPipeline { return vPipe(Just[int64](), vFlatInt) }},
		vVariantPair{name: "Of <-> FromSlice", nsrc: 0,
			mkA: func(c *vVarCtx) vPipeline { return vPipe(Of(c.p[0], c.p[1]), vFlatInt) },
			mkB: func(c *vVarCtx) vPipeline { return vPipe(FromSlice([]int64{c.p[0], c.p[1]}), vFlatInt) }},
	)

	// ---- aliases and curried forms over two cold sources ------------------
	two := func(name string, async bool, a, b func(x, y Observable[int64]) Observable[int64]) vVariantPair {
		return vVariantPair{name: name, nsrc: 2, async: async,
			mkA: func(c *vVarCtx) vPipeline { return vPipe(a(c.src[0], c.src[1]), vFlatInt) },
			mkB: func(c *vVarCtx) vPipeline { return vPipe(b(c.src[0], c.src[1]), vFlatInt) }}
	}
	add(
		two("Amb <-> Race", false,
			func(x, y Observable[int64]) Observable[int64] { return Amb(x, y) },
			func(x, y Observable[int64]) Observable[int64] { return Race(x, y) }),
		two("Race(a,b) <-> RaceWith(b)(a)", false,
			func(x, y Observable[int64]) Observable[int64] { return Race(x, y) },
			func(x, y Observable[int64]) Observable[int64] { return RaceWith(y)(x) }),
		two("Merge(a,b) <-> MergeWith(b)(a)", false,
			func(x, y Observable[int64]) Observable[int64] { return Merge(x, y) },
			func(x, y Observable[int64]) Observable[int64] { return MergeWith(y)(x) }),
		two("MergeWith(b)(a) <-> MergeWith1(b)(a)", false,
			func(x, y Observable[int64]) Observable[int64] { return MergeWith(y)(x) },
			func(x, y Observable[int64]) Observable[int64] { return MergeWith1(y)(x) }),
		two("Concat(a,b) <-> ConcatWith(b)(a)", true,
			func(x, y Observable[int64]) Observable[int64] { return Concat(x, y) },
			func(x, y Observable[int64]) Observable[int64] { return ConcatWith(y)(x) }),
	)

	// ---- typed compositions: PipeN / PipeOpN against nested application ---
	// op1 = Filter(p), op2 = Map(f), op3 = Scan(g, p[0])
	add(
		vV1("Pipe1(src, op1) <-> op1(src)", vFlatInt,
			func(c *vVarCtx) Observable[int64] { return Pipe1(c.src[0], Filter(vCbP)) },
			func(c *vVarCtx) Observable[int64] { return Filter(vCbP)(c.src[0]) }),
		vV1("Pipe2(src, op1, op2) <-> op2(op1(src))", vFlatInt,
			func(c *vVarCtx) Observable[int64] { return Pipe2(c.src[0], Filter(vCbP), Map(vVF)) },
			func(c *vVarCtx) Observable[int64] { return Map(vVF)(Filter(vCbP)(c.src[0])) }),
		vV1("Pipe3(src, op1, op2, op3) <-> op3(op2(op1(src)))", vFlatInt,
			func(c *vVarCtx) Observable[int64] { return Pipe3(c.src[0], Filter(vCbP), Map(vVF), Scan(vVG, c.p[0])) },
			func(c *vVarCtx) Observable[int64] { return Scan(vVG, c.p[0])(Map(vVF)(Filter(vCbP)(c.src[0]))) }),
		vV1("PipeOp1(op1)(src) <-> op1(src)", vFlatInt,
			func(c *vVarCtx) Observable[int64] { return PipeOp1(Filter(vCbP))(c.src[0]) },
			func(c *vVarCtx) Observable[int64] { return Filter(vCbP)(c.src[0]) }),
		vV1("PipeOp2(op1, op2)(src) <-> op2(op1(src))", vFlatInt,
			func(c *vVarCtx) Observable[int64] { return PipeOp2(Filter(vCbP), Map(vVF))(c.src[0]) },
			func(c *vVarCtx) Observable[int64] { return Map(vVF)(Filter(vCbP)(c.src[0])) }),
		vV1("PipeOp3(op1, op2, op3)(src) <-> op3(op2(op1(src)))", vFlatInt,
			func(c *vVarCtx) Observable[int64] {
				return PipeOp3(Filter(vCbP), Map(vVF), Scan(vVG, c.p[0]))(c.src[0])
			},
			func(c *vVarCtx) Observable[int64] { return Scan(vVG, c.p[0])(Map(vVF)(Filter(vCbP)(c.src[0]))) }),
		vV1("Pipe2(src, op1, op2) <-> PipeOp2(op1, op2)(src)", vFlatInt,
			func(c *vVarCtx) Observable[int64] { return Pipe2(c.src[0], Filter(vCbP), Map(vVF)) },
			func(c *vVarCtx) Observable[int64] { return PipeOp2(Filter(vCbP), Map(vVF))(c.src[0]) }),
		// a chain of a different shape: early termination in the middle
		vV1("Pipe3(src, Map, TakeWhile, Reduce) <-> nested", vFlatInt,
			func(c *vVarCtx) Observable[int64] {
				return Pipe3(c.src[0], Map(vVF), TakeWhile(vCbP), Reduce(vVG, c.p[0]))
			},
			func(c *vVarCtx) Observable[int64] { return Reduce(vVG, c.p[0])(TakeWhile(vCbP)(Map(vVF)(c.src[0]))) }),
	)
}

// ---------------------------------------------------------------------------

type vVarSide struct {
	rec    *vRecorder
	log    *vRecorder
	probes []*vProbe
	done   bool // the Subscribe call returned
}

func vVarRun(tag string, pr *vVariantPair, mk func(c *vVarCtx) vPipeline, scripts [][]vStep, p [4]int64) *vVarSide {
	s := &vVarSide{rec: &vRecorder{name: tag}, log: &vRecorder{name: tag + "log", quiet: true}}
	c := &vVarCtx{log: s.log, p: p}
	for i := 0; i < pr.nsrc; i++ {
		pb := &vProbe{name: tag + "src" + vItoa(i), cold: true, script: scripts[i]}
		s.probes = append(s.probes, pb)
		c.src = append(c.src, pb)
	}
	pipe := mk(c)
	for _, pb := range s.probes {
		vAssert(pb.subs == 0, pr.name+": a source was subscribed at construction time")
	}
	if pr.async {
		vGo(func() {
			pipe(context.Background(), s.rec)
			s.done = true
		})
		vQuiesce()
	} else {
		pipe(context.Background(), s.rec)
		s.done = true
	}
	return s
}

func vC04Variants(L int) {
	pr := &vVariantPairs[vChoice("pair", len(vVariantPairs))]
	var scripts [][]vStep
	if pr.nsrc >= 1 {
		scripts = append(scripts, vLegalScript("s", L))
	}
	if pr.nsrc >= 2 {
		scripts = append(scripts, vLegalScript("t", L))
	}
	var p [4]int64
	for i := range p {
		p[i] = vInt64("p" + vItoa(i))
	}
	a := vVarRun("a", pr, pr.mkA, scripts, p)
	b := vVarRun("b", pr, pr.mkB, scripts, p)
	vCheckGrammar(pr.name+" (left)", a.rec)
	vCheckGrammar(pr.name+" (right)", b.rec)
	vSameEvents(pr.name, a.rec.evs, b.rec.evs)
	vSameEvents(pr.name+" (callback invocations)", a.log.evs, b.log.evs)
	for i := range a.probes {
		vAssert(a.probes[i].subs == b.probes[i].subs, pr.name+": the two forms subscribed source "+vItoa(i)+" a different number of times")
		vAssert(a.probes[i].live == b.probes[i].live, pr.name+": the two forms differ in whether source "+vItoa(i)+" is still subscribed")
	}
	vAssert(a.done == b.done, pr.name+": the Subscribe call returned for one form and is still blocked for the other")
	vReach("end")
}

func vhC04_variants_L2() { vC04Variants(2) }
func vhC04_variants_L3() { vC04Variants(3) }
