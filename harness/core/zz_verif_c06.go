package ro

import "context"

// C06(a): Unsubscribe from inside the k-th callback of the final observer (a
// catalogue entry in between), possibly twice: the callback in progress may
// finish, nothing else is delivered, the subscription is closed, Wait returns.
func vC06Inside(L int) {
	op := &vCatalog[vChoice("entry", len(vCatalog))]
	if op.nsrc != 1 {
		vAssume(false)
	}
	in := vLegalScript("s", L)
	at := vChoice("at", L+1)
	twice := vChoice("twice", 2) == 1
	p := &vProbe{name: "src"}
	c := &vCtx{src: []Observable[int64]{p}, L: L}
	pipe := op.mk(c)
	rec := &vRecorder{}
	var sub Subscription
	unsubAt := -1
	rec.hook = func(r *vRecorder, kind int, idx int) {
		if idx == at && sub != nil {
			sub.Unsubscribe()
			if twice {
				sub.Unsubscribe()
			}
			unsubAt = idx
			vAssert(sub.IsClosed(), op.name+": IsClosed is false after Unsubscribe returned (called from inside a callback)")
		}
	}
	sub = pipe(context.Background(), rec)
	for _, st := range in {
		p.emit(st)
	}
	vCheckGrammar(op.name, rec)
	if unsubAt >= 0 {
		vAssert(len(rec.evs) == unsubAt+1, op.name+": a notification was delivered after Unsubscribe was called from inside a callback")
		vAssert(p.live == 0, op.name+": the source is still subscribed after Unsubscribe from inside a callback")
		sub.Wait()
	}
	vReach("end")
}

func vhC06_inside_L2() { vC06Inside(2) }
func vhC06_inside_L3() { vC06Inside(3) }

// C06(b): Wait and Collect.  A producer thread plays a legal script into a safe
// observable; one or two waiter threads call Wait; Wait returns only once the
// subscription is closed and after the terminal callback has returned, and it
// always returns once the stream has terminated or been unsubscribed.
func vC06Wait(L int) {
	in := vLegalScript("s", L)
	var dest Observer[int64]
	obs := NewSafeObservableWithContext(func(ctx context.Context, d Observer[int64]) Teardown {
		dest = d
		return nil
	})
	rec := &vRecorder{yield: true, quiet: true}
	termReturned := false
	rec.hook = func(r *vRecorder, kind int, idx int) {
		if kind != vkNext {
			vYield()
			termReturned = true
		}
	}
	sub := obs.SubscribeWithContext(context.Background(), vObs(rec, vFlatInt))
	waiters := 1 + vChoice("waiters", 2)
	returned := 0
	unsub := vChoice("unsub", 2) == 1
	for w := 0; w < waiters; w++ {
		vGo(func() {
			sub.Wait()
			vAssert(sub.IsClosed(), "Wait returned although the subscription is not closed")
			if rec.terminals() > 0 {
				vAssert(termReturned, "Wait returned before the terminal callback had returned")
			}
			returned++
		})
	}
	vGo(func() {
		for _, st := range in {
			vEmit(dest, context.Background(), st)
		}
		if unsub {
			sub.Unsubscribe()
		}
	})
	vQuiesce()
	if unsub || rec.terminals() > 0 {
		vAssert(returned == waiters, "Wait did not return although the stream has terminated")
	} else {
		vAssert(returned == 0, "Wait returned although the stream is still open")
		sub.Unsubscribe()
		vQuiesce()
		vAssert(returned == waiters, "Wait did not return after Unsubscribe")
	}
	vReach("end")
}

func vhC06_wait_L1() { vC06Wait(1) }
func vhC06_wait_L2() { vC06Wait(2) }

// C06(c): Collect returns exactly what the stream delivered, with its error.
func vC06Collect(L int) {
	in := vLegalScript("s", L)
	if vEnd(in) == -1 {
		vAssume(false) // Collect on a never-ending stream legitimately blocks
	}
	async := vChoice("async", 2) == 1
	obs := NewObservableWithContext(func(ctx context.Context, d Observer[int64]) Teardown {
		play := func() {
			for _, st := range in {
				vEmit(d, ctx, st)
			}
		}
		if async {
			vGo(play)
		} else {
			play()
		}
		return nil
	})
	vals, err := Collect(obs)
	want := vVals(in)
	vAssert(len(vals) == len(want), "Collect returned a different number of values than the stream delivered")
	acc := true
	for i := range vals {
		acc = vAnd(acc, vals[i] == want[i])
	}
	vAssert(acc, "Collect returned different values than the stream delivered")
	vAssert((err != nil) == (vEnd(in) == vkError), "Collect returned the wrong error")
	vReach("end")
}

func vhC06_collect_L2() { vC06Collect(2) }
func vhC06_collect_L3() { vC06Collect(3) }
