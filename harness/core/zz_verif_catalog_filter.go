package ro

// Catalogue batch: filtering (operator_filter.go) and conditional
// (operator_conditional.go) operators, single source, T=int64.
//
// Reference models are written from the doc comments, docs/data/core-*.md and
// the behaviour pinned by operator_filter_test.go, operator_conditional_test.go
// and the Example* functions of ro_example_test.go (sources quoted per model).
// Errors raised by the library itself (ErrFirstEmpty, ...) all map to code 9 in
// vErrCode; source errors are vErrA (code 1).

import "context"

// ---------------------------------------------------------------------------
// user callbacks (uninterpreted; "p" predicate, "k" key selector, "c" condition)

func vCbP(v int64) bool           { vFP("p"); return vUFBool("p", v) }
func vCbPI(v int64, i int64) bool { vFP("p"); return vUFBool("p", v, i) }
func vCbPC(ctx context.Context, v int64) (context.Context, bool) {
	vFP("p")
	return ctx, vUFBool("p", v)
}
func vCbPIC(ctx context.Context, v int64, i int64) (context.Context, bool) {
	vFP("p")
	return ctx, vUFBool("p", v, i)
}
func vCbPCb(ctx context.Context, v int64) bool           { vFP("p"); return vUFBool("p", v) }
func vCbPICb(ctx context.Context, v int64, i int64) bool { vFP("p"); return vUFBool("p", v, i) }

// the same predicates as seen by the reference models
type vPredFn func(v, i int64) bool

func vPV(v, i int64) bool  { return vUFBool("p", v) }
func vPVI(v, i int64) bool { return vUFBool("p", v, i) }

// ---------------------------------------------------------------------------
// reference models

// Filter*: "emits only those items from an Observable that pass a predicate
// test"; the index is the position in the source (TestOperatorFilterFilterI).
func vRefFilter(in []vStep, p vPredFn) []vEv {
	var out []vEv
	for i, v := range vVals(in) {
		if p(v, int64(i)) {
			out = append(out, vN(v))
		}
	}
	return vTail(out, in)
}

// DistinctBy: "suppresses duplicate items in an Observable based on a key
// selector": the first item of every key passes (TestOperatorFilterDistinctBy).
func vRefDistinctBy(in []vStep) []vEv {
	var out []vEv
	var seen []int64
	for _, v := range vVals(in) {
		k := vUFInt("k", v)
		dup := false
		for _, s := range seen {
			if s == k {
				dup = true
			}
		}
		if !dup {
			seen = append(seen, k)
			out = append(out, vN(v))
		}
	}
	return vTail(out, in)
}

// SkipWhile*: "skips items ... until a specified condition becomes false. It
// will then emit all the subsequent items" (the item on which the condition is
// false included: TestOperatorFilterSkipWhile [6 7 8 9]).
func vRefSkipWhile(in []vStep, p vPredFn) []vEv {
	var out []vEv
	skipping := true
	for i, v := range vVals(in) {
		if skipping && p(v, int64(i)) {
			continue
		}
		skipping = false
		out = append(out, vN(v))
	}
	return vTail(out, in)
}

// TakeWhile*: "emits items ... so long as a specified condition is true. It
// will then complete" (ExampleTakeWhile_error2: the completion comes with the
// first failing item, a later source error is not seen).
func vRefTakeWhile(in []vStep, p vPredFn) []vEv {
	var out []vEv
	for i, v := range vVals(in) {
		if !p(v, int64(i)) {
			return append(out, vC())
		}
		out = append(out, vN(v))
	}
	return vTail(out, in)
}

// First*: first item satisfying the predicate, then completion at once
// (ExampleFirst_error); no match at completion: ErrFirstEmpty
// (TestOperatorFilterFirst); source error before a match: that error.
func vRefFirst(in []vStep, p vPredFn) []vEv {
	for i, v := range vVals(in) {
		if p(v, int64(i)) {
			return []vEv{vN(v), vC()}
		}
	}
	switch vEnd(in) {
	case vkComplete:
		return []vEv{vE(ErrFirstEmpty)}
	case vkError:
		return []vEv{vE(vErrA)}
	}
	return nil
}

// Last*: at completion the last item satisfying the predicate, then
// completion; none: ErrLastEmpty (TestOperatorFilterLast); source error: that
// error alone (ExampleLast_error).
func vRefLast(in []vStep, p vPredFn) []vEv {
	switch vEnd(in) {
	case vkComplete:
		found := false
		var last int64
		for i, v := range vVals(in) {
			if p(v, int64(i)) {
				found = true
				last = v
			}
		}
		if found {
			return []vEv{vN(last), vC()}
		}
		return []vEv{vE(ErrLastEmpty)}
	case vkError:
		return []vEv{vE(vErrA)}
	}
	return nil
}

// All*: "determines whether all elements of an observable sequence satisfy a
// condition": true at completion when every item passed
// (TestOperatorConditionalAll, empty source included).  The repository's
// tests only use completing sources; for the moment at which a failing item
// settles the answer the model follows the ReactiveX convention (every/all:
// false is emitted, and the stream completes, as soon as an item fails).
func vRefAll(in []vStep, p vPredFn) []vEv {
	for i, v := range vVals(in) {
		if !p(v, int64(i)) {
			if vEnd(in) != vkComplete {
				// when a failing item settles the answer (at once, as ReactiveX's every
				// does, or at completion, as this library does) is not documented and
				// not pinned by the suite: left free (recorded in DESIGN.md §10)
				vAssume(false)
			}
			return []vEv{vN(0), vC()}
		}
	}
	switch vEnd(in) {
	case vkComplete:
		return []vEv{vN(1), vC()}
	case vkError:
		return []vEv{vE(vErrA)}
	}
	return nil
}

// Contains*: "determines whether any element of an observable sequence
// satisfies a condition": true and completion with the first match, false at
// completion (TestOperatorConditionalContains), source error otherwise
// (ExampleContains_error).
func vRefContains(in []vStep, p vPredFn) []vEv {
	for i, v := range vVals(in) {
		if p(v, int64(i)) {
			return []vEv{vN(1), vC()}
		}
	}
	switch vEnd(in) {
	case vkComplete:
		return []vEv{vN(0), vC()}
	case vkError:
		return []vEv{vE(vErrA)}
	}
	return nil
}

// Find*: "returns the first element of an observable sequence that satisfies
// the condition", then completes; no match: plain completion (ExampleFind_ok).
func vRefFind(in []vStep, p vPredFn) []vEv {
	for i, v := range vVals(in) {
		if p(v, int64(i)) {
			return []vEv{vN(v), vC()}
		}
	}
	return vTail(nil, in)
}

// ---------------------------------------------------------------------------

var vCatalogFilter = []vOp{
	// ---- Entries that do not run clean on the unchanged tree come first, on
	// purpose: the engine explores the entry choice from the highest index down
	// and stops a harness after 40 non-OK paths, so they must come last in the
	// exploration order not to hide the entries below.
	//   All*:                  C04 (see vRefAll)
	//   First*/Find*/Contains*: C07 (the predicate keeps being invoked on the items
	//                           that follow the match, after the operator has
	//                           completed; a panic there cannot surface any more)

	// ---- All family
	{name: "All", nsrc: 1, cbs: []string{"p"},
		mk:  func(c *vCtx) vPipeline { return vPipe(All(vCbP)(c.src[0]), vFlatBool) },
		ref: func(c *vCtx, in []vStep) []vEv { return vRefAll(in, vPV) }},
	{name: "AllI", nsrc: 1, cbs: []string{"p"},
		mk:  func(c *vCtx) vPipeline { return vPipe(AllI(vCbPI)(c.src[0]), vFlatBool) },
		ref: func(c *vCtx, in []vStep) []vEv { return vRefAll(in, vPVI) }},
	{name: "AllWithContext", nsrc: 1, cbs: []string{"p"},
		mk:  func(c *vCtx) vPipeline { return vPipe(AllWithContext(vCbPCb)(c.src[0]), vFlatBool) },
		ref: func(c *vCtx, in []vStep) []vEv { return vRefAll(in, vPV) }},
	{name: "AllIWithContext", nsrc: 1, cbs: []string{"p"},
		mk:  func(c *vCtx) vPipeline { return vPipe(AllIWithContext(vCbPICb)(c.src[0]), vFlatBool) },
		ref: func(c *vCtx, in []vStep) []vEv { return vRefAll(in, vPVI) }},

	// ---- First family
	{name: "First", nsrc: 1, cbs: []string{"p"},
		mk:  func(c *vCtx) vPipeline { return vPipe(First(vCbP)(c.src[0]), vFlatInt) },
		ref: func(c *vCtx, in []vStep) []vEv { return vRefFirst(in, vPV) }},
	{name: "FirstI", nsrc: 1, cbs: []string{"p"},
		mk:  func(c *vCtx) vPipeline { return vPipe(FirstI(vCbPI)(c.src[0]), vFlatInt) },
		ref: func(c *vCtx, in []vStep) []vEv { return vRefFirst(in, vPVI) }},
	{name: "FirstWithContext", nsrc: 1, cbs: []string{"p"},
		mk:  func(c *vCtx) vPipeline { return vPipe(FirstWithContext(vCbPC)(c.src[0]), vFlatInt) },
		ref: func(c *vCtx, in []vStep) []vEv { return vRefFirst(in, vPV) }},
	{name: "FirstIWithContext", nsrc: 1, cbs: []string{"p"},
		mk:  func(c *vCtx) vPipeline { return vPipe(FirstIWithContext(vCbPIC)(c.src[0]), vFlatInt) },
		ref: func(c *vCtx, in []vStep) []vEv { return vRefFirst(in, vPVI) }},

	// ---- Contains family
	{name: "Contains", nsrc: 1, cbs: []string{"p"},
		mk:  func(c *vCtx) vPipeline { return vPipe(Contains(vCbP)(c.src[0]), vFlatBool) },
		ref: func(c *vCtx, in []vStep) []vEv { return vRefContains(in, vPV) }},
	{name: "ContainsI", nsrc: 1, cbs: []string{"p"},
		mk:  func(c *vCtx) vPipeline { return vPipe(ContainsI(vCbPI)(c.src[0]), vFlatBool) },
		ref: func(c *vCtx, in []vStep) []vEv { return vRefContains(in, vPVI) }},
	{name: "ContainsWithContext", nsrc: 1, cbs: []string{"p"},
		mk:  func(c *vCtx) vPipeline { return vPipe(ContainsWithContext(vCbPCb)(c.src[0]), vFlatBool) },
		ref: func(c *vCtx, in []vStep) []vEv { return vRefContains(in, vPV) }},
	{name: "ContainsIWithContext", nsrc: 1, cbs: []string{"p"},
		mk:  func(c *vCtx) vPipeline { return vPipe(ContainsIWithContext(vCbPICb)(c.src[0]), vFlatBool) },
		ref: func(c *vCtx, in []vStep) []vEv { return vRefContains(in, vPVI) }},

	// ---- Find family
	{name: "Find", nsrc: 1, cbs: []string{"p"},
		mk:  func(c *vCtx) vPipeline { return vPipe(Find(vCbP)(c.src[0]), vFlatInt) },
		ref: func(c *vCtx, in []vStep) []vEv { return vRefFind(in, vPV) }},
	{name: "FindI", nsrc: 1, cbs: []string{"p"},
		mk:  func(c *vCtx) vPipeline { return vPipe(FindI(vCbPI)(c.src[0]), vFlatInt) },
		ref: func(c *vCtx, in []vStep) []vEv { return vRefFind(in, vPVI) }},
	{name: "FindWithContext", nsrc: 1, cbs: []string{"p"},
		mk:  func(c *vCtx) vPipeline { return vPipe(FindWithContext(vCbPCb)(c.src[0]), vFlatInt) },
		ref: func(c *vCtx, in []vStep) []vEv { return vRefFind(in, vPV) }},
	{name: "FindIWithContext", nsrc: 1, cbs: []string{"p"},
		mk:  func(c *vCtx) vPipeline { return vPipe(FindIWithContext(vCbPICb)(c.src[0]), vFlatInt) },
		ref: func(c *vCtx, in []vStep) []vEv { return vRefFind(in, vPVI) }},

	// ---- Filter family
	{name: "FilterI", nsrc: 1, cbs: []string{"p"},
		mk:  func(c *vCtx) vPipeline { return vPipe(FilterI(vCbPI)(c.src[0]), vFlatInt) },
		ref: func(c *vCtx, in []vStep) []vEv { return vRefFilter(in, vPVI) }},
	{name: "FilterWithContext", nsrc: 1, cbs: []string{"p"},
		mk:  func(c *vCtx) vPipeline { return vPipe(FilterWithContext(vCbPC)(c.src[0]), vFlatInt) },
		ref: func(c *vCtx, in []vStep) []vEv { return vRefFilter(in, vPV) }},
	{name: "FilterIWithContext", nsrc: 1, cbs: []string{"p"},
		mk:  func(c *vCtx) vPipeline { return vPipe(FilterIWithContext(vCbPIC)(c.src[0]), vFlatInt) },
		ref: func(c *vCtx, in []vStep) []vEv { return vRefFilter(in, vPVI) }},

	// ---- DistinctBy family
	{name: "DistinctBy", nsrc: 1, cbs: []string{"k"},
		mk: func(c *vCtx) vPipeline {
			return vPipe(DistinctBy(func(v int64) int64 { vFP("k"); return vUFInt("k", v) })(c.src[0]), vFlatInt)
		},
		ref: func(c *vCtx, in []vStep) []vEv { return vRefDistinctBy(in) }},
	{name: "DistinctByWithContext", nsrc: 1, cbs: []string{"k"},
		mk: func(c *vCtx) vPipeline {
			return vPipe(DistinctByWithContext(func(ctx context.Context, v int64) (context.Context, int64) {
				vFP("k")
				return ctx, vUFInt("k", v)
			})(c.src[0]), vFlatInt)
		},
		ref: func(c *vCtx, in []vStep) []vEv { return vRefDistinctBy(in) }},

	// ---- IgnoreElements: "does not emit any items ... but mirrors its termination notification"
	{name: "IgnoreElements", nsrc: 1,
		mk:  func(c *vCtx) vPipeline { return vPipe(IgnoreElements[int64]()(c.src[0]), vFlatInt) },
		ref: func(c *vCtx, in []vStep) []vEv { return vTail(nil, in) }},

	// ---- SkipWhile family
	{name: "SkipWhile", nsrc: 1, cbs: []string{"p"},
		mk:  func(c *vCtx) vPipeline { return vPipe(SkipWhile(vCbP)(c.src[0]), vFlatInt) },
		ref: func(c *vCtx, in []vStep) []vEv { return vRefSkipWhile(in, vPV) }},
	{name: "SkipWhileI", nsrc: 1, cbs: []string{"p"},
		mk:  func(c *vCtx) vPipeline { return vPipe(SkipWhileI(vCbPI)(c.src[0]), vFlatInt) },
		ref: func(c *vCtx, in []vStep) []vEv { return vRefSkipWhile(in, vPVI) }},
	{name: "SkipWhileWithContext", nsrc: 1, cbs: []string{"p"},
		mk:  func(c *vCtx) vPipeline { return vPipe(SkipWhileWithContext(vCbPC)(c.src[0]), vFlatInt) },
		ref: func(c *vCtx, in []vStep) []vEv { return vRefSkipWhile(in, vPV) }},
	{name: "SkipWhileIWithContext", nsrc: 1, cbs: []string{"p"},
		mk:  func(c *vCtx) vPipeline { return vPipe(SkipWhileIWithContext(vCbPIC)(c.src[0]), vFlatInt) },
		ref: func(c *vCtx, in []vStep) []vEv { return vRefSkipWhile(in, vPVI) }},

	// ---- TakeWhile family
	{name: "TakeWhile", nsrc: 1, cbs: []string{"p"},
		mk:  func(c *vCtx) vPipeline { return vPipe(TakeWhile(vCbP)(c.src[0]), vFlatInt) },
		ref: func(c *vCtx, in []vStep) []vEv { return vRefTakeWhile(in, vPV) }},
	{name: "TakeWhileI", nsrc: 1, cbs: []string{"p"},
		mk:  func(c *vCtx) vPipeline { return vPipe(TakeWhileI(vCbPI)(c.src[0]), vFlatInt) },
		ref: func(c *vCtx, in []vStep) []vEv { return vRefTakeWhile(in, vPVI) }},
	{name: "TakeWhileWithContext", nsrc: 1, cbs: []string{"p"},
		mk:  func(c *vCtx) vPipeline { return vPipe(TakeWhileWithContext(vCbPC)(c.src[0]), vFlatInt) },
		ref: func(c *vCtx, in []vStep) []vEv { return vRefTakeWhile(in, vPV) }},
	{name: "TakeWhileIWithContext", nsrc: 1, cbs: []string{"p"},
		mk:  func(c *vCtx) vPipeline { return vPipe(TakeWhileIWithContext(vCbPIC)(c.src[0]), vFlatInt) },
		ref: func(c *vCtx, in []vStep) []vEv { return vRefTakeWhile(in, vPVI) }},

	// ---- Head: "emits only the first item ... If the source Observable is empty,
	// Head will emit an error" (ExampleHead_error: the completion follows the
	// first item at once; TestOperatorFilterHead)
	{name: "Head", nsrc: 1,
		mk: func(c *vCtx) vPipeline { return vPipe(Head[int64]()(c.src[0]), vFlatInt) },
		ref: func(c *vCtx, in []vStep) []vEv {
			if vals := vVals(in); len(vals) > 0 {
				return []vEv{vN(vals[0]), vC()}
			}
			switch vEnd(in) {
			case vkComplete:
				return []vEv{vE(ErrHeadEmpty)}
			case vkError:
				return []vEv{vE(vErrA)}
			}
			return nil
		}},

	// ---- Tail: "emits only the last item ... If the source Observable is empty,
	// Tail will emit an error" (TestOperatorFilterTail, ExampleTail_error)
	{name: "Tail", nsrc: 1,
		mk: func(c *vCtx) vPipeline { return vPipe(Tail[int64]()(c.src[0]), vFlatInt) },
		ref: func(c *vCtx, in []vStep) []vEv {
			vals := vVals(in)
			switch vEnd(in) {
			case vkComplete:
				if len(vals) > 0 {
					return []vEv{vN(vals[len(vals)-1]), vC()}
				}
				return []vEv{vE(ErrTailEmpty)}
			case vkError:
				return []vEv{vE(vErrA)}
			}
			return nil
		}},

	// ---- Last family
	{name: "Last", nsrc: 1, cbs: []string{"p"},
		mk:  func(c *vCtx) vPipeline { return vPipe(Last(vCbP)(c.src[0]), vFlatInt) },
		ref: func(c *vCtx, in []vStep) []vEv { return vRefLast(in, vPV) }},
	{name: "LastI", nsrc: 1, cbs: []string{"p"},
		mk:  func(c *vCtx) vPipeline { return vPipe(LastI(vCbPI)(c.src[0]), vFlatInt) },
		ref: func(c *vCtx, in []vStep) []vEv { return vRefLast(in, vPVI) }},
	{name: "LastWithContext", nsrc: 1, cbs: []string{"p"},
		mk:  func(c *vCtx) vPipeline { return vPipe(LastWithContext(vCbPC)(c.src[0]), vFlatInt) },
		ref: func(c *vCtx, in []vStep) []vEv { return vRefLast(in, vPV) }},
	{name: "LastIWithContext", nsrc: 1, cbs: []string{"p"},
		mk:  func(c *vCtx) vPipeline { return vPipe(LastIWithContext(vCbPIC)(c.src[0]), vFlatInt) },
		ref: func(c *vCtx, in []vStep) []vEv { return vRefLast(in, vPVI) }},

	// ---- ElementAt: "emits only the nth item (zero-based, docs/data/core-elementat.md)
	// ... If the source Observable emits fewer than n items, ElementAt will emit an
	// error" (TestOperatorFilterElementAt, ExampleElementAt_error)
	{name: "ElementAt", nsrc: 1,
		mk: func(c *vCtx) vPipeline {
			return vPipe(ElementAt[int64](int(vParam(c, 0, "n", 0)))(c.src[0]), vFlatInt)
		},
		ref: func(c *vCtx, in []vStep) []vEv {
			for i, v := range vVals(in) {
				if int64(i) == c.p[0] {
					return []vEv{vN(v), vC()}
				}
			}
			switch vEnd(in) {
			case vkComplete:
				return []vEv{vE(ErrElementAtNotFound)}
			case vkError:
				return []vEv{vE(vErrA)}
			}
			return nil
		}},

	// ---- ElementAtOrDefault: "... fewer than n items: emits a fallback value"
	// then completes (TestOperatorFilterElementAtOrDefault, ExampleElementAtOrDefault_error)
	{name: "ElementAtOrDefault", nsrc: 1,
		mk: func(c *vCtx) vPipeline {
			n := vParam(c, 0, "n", 0)
			fb := vInt64("fb")
			c.p[1] = fb
			return vPipe(ElementAtOrDefault[int64](n, fb)(c.src[0]), vFlatInt)
		},
		ref: func(c *vCtx, in []vStep) []vEv {
			for i, v := range vVals(in) {
				if int64(i) == c.p[0] {
					return []vEv{vN(v), vC()}
				}
			}
			switch vEnd(in) {
			case vkComplete:
				return []vEv{vN(c.p[1]), vC()}
			case vkError:
				return []vEv{vE(vErrA)}
			}
			return nil
		}},

	// ---- DefaultIfEmpty: "emits a default value if the source observable emits no
	// items" — at completion (docs/data/core-defaultifempty.md: "completes without
	// emitting any items"); an error is forwarded alone (ExampleDefaultIfEmpty_error)
	{name: "DefaultIfEmpty", nsrc: 1,
		mk: func(c *vCtx) vPipeline {
			d := vInt64("dflt")
			c.p[0] = d
			return vPipe(DefaultIfEmpty(d)(c.src[0]), vFlatInt)
		},
		ref: func(c *vCtx, in []vStep) []vEv {
			var out []vEv
			for _, v := range vVals(in) {
				out = append(out, vN(v))
			}
			if len(out) == 0 && vEnd(in) == vkComplete {
				out = append(out, vN(c.p[0]))
			}
			return vTail(out, in)
		}},

	// ---- Iif: "determines which one of two observables to return based on a
	// condition" (TestOperatorConditionalIif).  Both branches are built on the one
	// source so that the entry stays single-source: the source itself when the
	// condition holds (wrapped in Skip(0), documented as the identity, so that the
	// pipeline is never the bare probe, which does not honour Unsubscribe), Skip(1)
	// of it otherwise.  The condition is evaluated by the caller when the returned
	// function is invoked (no subscription exists yet), so it is not a
	// fault-injection point of C07.
	{name: "Iif", nsrc: 1,
		mk: func(c *vCtx) vPipeline {
			a, b := Skip[int64](0)(c.src[0]), Skip[int64](1)(c.src[0])
			return vPipe(Iif(func() bool { return vUFBool("c", 0) }, a, b)(), vFlatInt)
		},
		ref: func(c *vCtx, in []vStep) []vEv {
			var out []vEv
			from := 1
			if vUFBool("c", 0) {
				from = 0
			}
			for i, v := range vVals(in) {
				if i >= from {
					out = append(out, vN(v))
				}
			}
			return vTail(out, in)
		}},
}

func init() { vCatalog = append(vCatalog, vCatalogFilter...) }
