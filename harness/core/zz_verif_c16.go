package ro

import (
	"context"
	"time"
)

// C16: time-driven operators over the engine's logical clock.  All instants and
// durations are symbolic; only lower bounds on time and order/count relations
// are asserted.

func vDuration(name string) int64 {
	d := vInt64(name)
	vAssume(d > 0)
	vAssume(d <= 1<<40)
	return d
}

func vGap(name string) int64 {
	g := vInt64(name)
	vAssume(g >= 0)
	vAssume(g <= 1<<40)
	return g
}

type vStamped struct {
	rec    *vRecorder
	stamps []int64
}

func vNewStamped() *vStamped {
	s := &vStamped{rec: &vRecorder{quiet: true}}
	s.rec.hook = func(r *vRecorder, kind int, idx int) { s.stamps = append(s.stamps, vNow()) }
	return s
}

// Delay: a notification is delivered no sooner than d after it was emitted, in emission order.
func vC16Delay(n int) {
	d := vDuration("d")
	p := &vProbe{name: "src"}
	out := vNewStamped()
	sub := Delay[int64](time.Duration(d))(p).SubscribeWithContext(context.Background(), vObs(out.rec, vFlatInt))
	var sent []int64
	var vals []int64
	for i := 0; i < n; i++ {
		vAdvance(vGap("g" + vItoa(i)))
		v := vInt64("v" + vItoa(i))
		sent = append(sent, vNow())
		vals = append(vals, v)
		p.emit(vStep{vkNext, v})
	}
	unsub := vChoice("unsub", 2) == 1
	vAdvance(vGap("tail"))
	seen := len(out.rec.evs)
	if unsub {
		sub.Unsubscribe()
	}
	vAdvance(d)
	vAdvance(1)
	vQuiesce()
	vCheckGrammar("Delay", out.rec)
	if unsub {
		vAssert(len(out.rec.evs) == seen, "Delay: a notification was delivered after unsubscription")
	} else {
		vAssert(len(out.rec.evs) == n, "Delay: a delayed value was lost or duplicated")
	}
	acc := true
	for i, e := range out.rec.evs {
		vAssert(e.kind == vkNext && i < n, "Delay: unexpected notification")
		acc = vAnd(acc, e.vals[0] == vals[i])
		acc = vAnd(acc, out.stamps[i] >= sent[i]+d)
	}
	vAssert(acc, "Delay: a value was delivered early or out of emission order")
	vReach("end")
}

func vhC16_delay_n2() { vC16Delay(2) }
func vhC16_delay_n3() { vC16Delay(3) }

// Interval: emits 0,1,2,...; value k never before (k+1) periods have elapsed; silent after unsubscription.
func vC16Interval(chunks int) {
	d := vDuration("d")
	out := vNewStamped()
	t0 := vNow()
	sub := Interval(time.Duration(d)).SubscribeWithContext(context.Background(), vObs(out.rec, vFlatInt))
	for i := 0; i < chunks; i++ {
		g := vGap("g" + vItoa(i))
		vAssume(g <= d+d) // keeps the number of ticks per chunk small
		vAdvance(g)
		vQuiesce()
	}
	sub.Unsubscribe()
	vQuiesce()
	seen := len(out.rec.evs)
	vAdvance(d + d)
	vQuiesce()
	vAssert(len(out.rec.evs) == seen || (len(out.rec.evs) == seen+1 && out.rec.evs[seen].kind == vkComplete), "Interval: a value was emitted after unsubscription")
	acc := true
	need := t0
	for k := 0; k < seen; k++ {
		e := out.rec.evs[k]
		if e.kind != vkNext {
			break
		}
		need += d
		vAssert(e.vals[0] == int64(k), "Interval: values are not 0,1,2,... in order")
		acc = vAnd(acc, out.stamps[k] >= need)
	}
	vAssert(acc, "Interval: value k was emitted before k+1 periods had elapsed")
	run, blk := vLive()
	vAssert(run+blk == 0, "Interval: a goroutine is left after unsubscription")
	vReach("end")
}

func vhC16_interval_c2() { vC16Interval(2) }
func vhC16_interval_c3() { vC16Interval(3) }

// Timeout: the error is raised only after a full quiet period and never once the source has terminated.
func vC16Timeout(n int) {
	d := vDuration("d")
	p := &vProbe{name: "src"}
	out := vNewStamped()
	// a slow consumer: the clock passes inside one of its Next callbacks (a quiet period counts
	// from the emission of the last value, however long its delivery takes)
	slowAt := vChoice("slowAt", n+1) // n: never
	slow := vGap("slow")
	stamp := out.rec.hook
	out.rec.hook = func(r *vRecorder, kind int, idx int) {
		stamp(r, kind, idx)
		if kind == vkNext && idx == slowAt {
			vAdvance(slow)
			vQuiesce()
		}
	}
	Timeout[int64](time.Duration(d))(p).SubscribeWithContext(context.Background(), vObs(out.rec, vFlatInt))
	last := vNow()
	ended := false
	for i := 0; i < n; i++ {
		vAdvance(vGap("g" + vItoa(i)))
		vQuiesce()
		if out.rec.terminals() > 0 {
			break
		}
		k := vChoice("k"+vItoa(i), 3)
		if k == vkNext {
			last = vNow()
		} else {
			ended = true
		}
		p.emit(vStep{k, vInt64("v" + vItoa(i))})
		if ended {
			break
		}
	}
	vAdvance(d + d)
	vQuiesce()
	vCheckGrammar("Timeout", out.rec)
	for i, e := range out.rec.evs {
		if e.kind == vkError && vErrCode(e.err) == 9 {
			vAssert(!ended, "Timeout: the timeout error was raised after the source had terminated")
			vAssert(out.stamps[i] >= last+d, "Timeout: the timeout error was raised before a full quiet period had elapsed")
		}
	}
	if !ended {
		vAssert(out.rec.terminals() == 1, "Timeout: no timeout error although the source stayed quiet for more than the period")
	}
	vReach("end")
}

func vhC16_timeout_n2() { vC16Timeout(2) }
func vhC16_timeout_n3() { vC16Timeout(3) }

// ThrottleTime: at most one value per window; output is a subsequence of the input.
func vC16Throttle(n int) {
	d := vDuration("d")
	p := &vProbe{name: "src"}
	out := vNewStamped()
	ThrottleTime[int64](time.Duration(d))(p).SubscribeWithContext(context.Background(), vObs(out.rec, vFlatInt))
	var vals []int64
	for i := 0; i < n; i++ {
		vAdvance(vGap("g" + vItoa(i)))
		v := int64(i)
		vals = append(vals, v)
		p.emit(vStep{vkNext, v})
	}
	p.emit(vStep{kind: vkComplete})
	vCheckGrammar("ThrottleTime", out.rec)
	prev := int64(-1)
	acc := true
	for i, e := range out.rec.evs {
		if e.kind != vkNext {
			continue
		}
		vAssert(e.vals[0] > prev, "ThrottleTime: output is not a subsequence of the input")
		prev = e.vals[0]
		if i > 0 {
			acc = vAnd(acc, out.stamps[i] > out.stamps[i-1]+d)
		}
	}
	vAssert(acc, "ThrottleTime: more than one value was let through in one window")
	vAssert(out.rec.terminals() == 1, "ThrottleTime: the completion of the source was not propagated")
	vReach("end")
}

func vhC16_throttle_n2() { vC16Throttle(2) }
func vhC16_throttle_n3() { vC16Throttle(3) }

// SampleTime / BufferWithTime: at most one value per tick (sample); outputs are a
// subsequence (sample) or a partition (buffer) of what the source emitted during
// THIS subscription, in source order; silence after unsubscription.  The same
// observable is subscribed twice in sequence (the second subscription must not
// see anything of the first).
func vC16Sample(n int) {
	// the period is concrete here (1000 ns): with symbolic gaps AND a symbolic period the
	// tick/deadline case analysis needs ~100 ms of solver time per branch (measured); the
	// gaps between emissions stay symbolic
	d := int64(1000)
	which := vChoice("op", 2)
	p := &vProbe{name: "src"}
	var obsInt Observable[int64]
	var obsBuf Observable[[]int64]
	name := "SampleTime"
	if which == 0 {
		obsInt = SampleTime[int64](time.Duration(d))(p)
	} else {
		name = "BufferWithTime"
		obsBuf = BufferWithTime[int64](time.Duration(d))(p)
	}
	next := int64(1)
	for round := 0; round < 2; round++ {
		out := vNewStamped()
		var sub Subscription
		if which == 0 {
			sub = obsInt.SubscribeWithContext(context.Background(), vObs(out.rec, vFlatInt))
		} else {
			sub = obsBuf.SubscribeWithContext(context.Background(), vObs(out.rec, vFlatSlice))
		}
		vQuiesce()
		first := next
		for i := 0; i < n; i++ {
			g := vGap("g" + vItoa(round) + "_" + vItoa(i))
			vAssume(g <= d) // at most one tick per gap keeps the case analysis small
			vAdvance(g)
			vQuiesce()
			if vChoice("emit"+vItoa(round)+"_"+vItoa(i), 2) == 1 {
				p.emit(vStep{vkNext, next})
				next++
			}
		}
		flushed := vChoice("flush"+vItoa(round), 2) == 1
		if flushed {
			// let one more tick pass so that nothing is left pending ...
			vAdvance(d)
			vAdvance(1)
			vQuiesce()
		}
		// ... or unsubscribe while a sampled / buffered value may still be pending
		sub.Unsubscribe()
		vQuiesce()
		seen := len(out.rec.evs)
		vAdvance(d)
		vQuiesce()
		vAssert(len(out.rec.evs) == seen, name+": a notification was delivered after unsubscription")
		// every delivered value was emitted by the source during this subscription, in order
		prev := first - 1
		for i, e := range out.rec.evs {
			if e.kind != vkNext {
				continue
			}
			vals := e.vals
			if which == 1 {
				vals = e.vals[1:]
			}
			for _, v := range vals {
				vAssert(v >= first && v < next, name+": a value was emitted that the source did not emit during this subscription")
				vAssert(v > prev, name+": values were emitted out of source order or twice")
				prev = v
			}
			if which == 0 && i > 0 && out.rec.evs[i-1].kind == vkNext {
				vAssert(out.stamps[i] > out.stamps[i-1], name+": more than one value was emitted for one tick")
			}
		}
		if which == 1 && flushed {
			vAssert(prev == next-1, name+": a value of the source is missing from the buffers")
		}
		run, blk := vLive()
		vAssert(run+blk == 0, name+": a goroutine is left after unsubscription")
	}
	vReach("end")
}

func vhC16_sample_n2() { vC16Sample(2) }
func vhC16_sample_n3() { vC16Sample(3) }

// C16 / C12 (two overlapping subscriptions of one time-driven pipeline, started at different
// instants): each subscription has its own clock phase — the k-th periodic emission of a
// subscription never comes before k periods have elapsed since THAT subscription started.
func vC16Overlap() {
	const d = int64(1000)
	g := vInt64("g") // the second subscriber arrives g after the first
	vAssume(g > 0)
	vAssume(g < d)
	p := &vProbe{name: "src"}
	var pipe vPipeline
	name := ""
	switch vChoice("op", 3) {
	case 0:
		name, pipe = "BufferWithTime", vPipe(BufferWithTime[int64](time.Duration(d))(p), vFlatSlice)
	case 1:
		name, pipe = "BufferWithTimeOrCount", vPipe(BufferWithTimeOrCount[int64](5, time.Duration(d))(p), vFlatSlice)
	default:
		name, pipe = "SampleTime", vPipe(SampleTime[int64](time.Duration(d))(p), vFlatInt)
	}
	a, b := vNewStamped(), vNewStamped()
	tA := vNow()
	subA := pipe(context.Background(), a.rec)
	vQuiesce()
	vAdvance(g)
	vQuiesce()
	tB := vNow()
	subB := pipe(context.Background(), b.rec)
	vQuiesce()
	feed := func(v int64) {
		for i := 0; i < len(p.dests); i++ {
			if p.torn[i] == 0 && !p.ended[i] {
				p.emitAt(i, vStep{vkNext, v})
			}
		}
		vQuiesce()
	}
	feed(1)
	vAdvance(d - g) // the first subscriber's period is over, the second's is not
	vQuiesce()
	feed(2)
	vAdvance(g)
	vQuiesce()
	feed(3)
	vAdvance(d)
	vQuiesce()
	subA.Unsubscribe()
	subB.Unsubscribe()
	vQuiesce()
	check := func(who string, s *vStamped, t0 int64) {
		k := int64(0)
		for i, e := range s.rec.evs {
			if e.kind != vkNext {
				continue
			}
			k++
			vAssert(s.stamps[i] >= t0+k*d, name+": the k-th periodic emission of the "+who+" of two overlapping subscriptions came before k periods had elapsed since it subscribed")
		}
	}
	check("first", a, tA)
	check("second", b, tB)
	vReach("end")
}

func vhC16_overlap_2() { vC16Overlap() }

// C16 under context cancellation: "never act early ... and fall silent after context cancellation".
// A delaying operator holds a value when the subscription context is cancelled: the value is not
// released early (delivered, if at all, no sooner than its delay), and what the source emits after
// the cancellation is not delivered without its delay either.
func vC16DelayCtx() {
	const d = int64(1000)
	g := vInt64("g") // the context is cancelled g after the first value was emitted
	vAssume(g > 0)
	vAssume(g < d)
	ctx, cancel := context.WithCancel(context.Background())
	p := &vProbe{name: "src"}
	name := "Delay"
	var obs Observable[int64]
	if vChoice("op", 2) == 0 {
		obs = Delay[int64](time.Duration(d))(p)
	} else {
		name = "DelayEach"
		obs = DelayEach[int64](time.Duration(d))(p)
	}
	out := vNewStamped()
	vGo(func() { obs.SubscribeWithContext(ctx, vObs(out.rec, vFlatInt)) })
	vQuiesce()
	var emitted []int64
	t1 := vNow()
	vGo(func() {
		if p.live > 0 {
			p.emit(vStep{vkNext, 1})
		}
	})
	vQuiesce()
	emitted = append(emitted, t1)
	vAdvance(g)
	vQuiesce()
	cancel()
	vQuiesce()
	t2 := vNow()
	vGo(func() {
		if p.live > 0 {
			p.emit(vStep{vkNext, 2})
		}
	})
	vQuiesce()
	emitted = append(emitted, t2)
	vAdvance(d + d + d)
	vQuiesce()
	vCheckGrammar(name, out.rec)
	for i, e := range out.rec.evs {
		if e.kind != vkNext {
			continue
		}
		k := e.vals[0] - 1
		vAssert(k >= 0 && k < 2, name+": a value was delivered that the source did not emit")
		vAssert(out.stamps[i] >= emitted[k]+d, name+": a value was delivered sooner than its delay after it was emitted (context cancelled meanwhile)")
	}
	vReach("end")
}

func vhC16_delayctx_2() { vC16DelayCtx() }
