package ro

import (
	"context"

	"github.com/samber/lo"
)

// Multi-source driver (C05): k hot probe sources; at each of T steps a symbolic
// choice picks the source and the notification kind — every interleaving of the
// sources' scripts is a value of these variables.  Each step is processed to
// quiescence before the next.  The Subscribe call runs in its own thread, since
// some operators (Concat) wait inside subscribe.

type vMStep struct {
	src  int
	kind int
	v    int64
}

type vMOp struct {
	name string
	nsrc int
	mk   func(c *vCtx) vPipeline
	// ref: the output the definition assigns to this arrival order (each source's
	// steps are legal: nothing after its own terminal)
	ref func(c *vCtx, steps []vMStep) []vEv
	// lazy[i]: source i is subscribed only later (concat); steps for a source
	// that has no subscriber yet are pruned
}

func vFlatT2(t lo.Tuple2[int64, int64]) []int64 { return []int64{t.A, t.B} }

var vMCatalog = []vMOp{
	{name: "MergeWith1", nsrc: 2,
		mk: func(c *vCtx) vPipeline { return vPipe(MergeWith1(c.src[1])(c.src[0]), vFlatInt) },
		ref: func(c *vCtx, steps []vMStep) []vEv {
			var out []vEv
			done := 0
			for _, s := range steps {
				switch s.kind {
				case vkNext:
					out = append(out, vN(s.v))
				case vkError:
					return append(out, vE(vErrA))
				default:
					done++
					if done == 2 {
						return append(out, vC())
					}
				}
			}
			return out
		}},
	{name: "ConcatWith", nsrc: 2,
		mk: func(c *vCtx) vPipeline { return vPipe(ConcatWith(c.src[1])(c.src[0]), vFlatInt) },
		ref: func(c *vCtx, steps []vMStep) []vEv {
			var out []vEv
			cur := 0
			for _, s := range steps {
				if s.src != cur {
					continue // not subscribed (pruned by the driver)
				}
				switch s.kind {
				case vkNext:
					out = append(out, vN(s.v))
				case vkError:
					return append(out, vE(vErrA))
				default:
					cur++
					if cur == 2 {
						return append(out, vC())
					}
				}
			}
			return out
		}},
	{name: "CombineLatestWith1", nsrc: 2,
		mk: func(c *vCtx) vPipeline { return vPipe(CombineLatestWith1[int64](c.src[1])(c.src[0]), vFlatT2) },
		ref: func(c *vCtx, steps []vMStep) []vEv {
			var out []vEv
			var last [2]int64
			var has [2]bool
			done := 0
			for _, s := range steps {
				switch s.kind {
				case vkNext:
					last[s.src], has[s.src] = s.v, true
					if has[0] && has[1] {
						out = append(out, vN(last[0], last[1]))
					}
				case vkError:
					return append(out, vE(vErrA))
				default:
					done++
					if done == 2 {
						return append(out, vC())
					}
				}
			}
			return out
		}},
	{name: "ZipWith1", nsrc: 2,
		mk: func(c *vCtx) vPipeline { return vPipe(ZipWith1[int64](c.src[1])(c.src[0]), vFlatT2) },
		ref: func(c *vCtx, steps []vMStep) []vEv {
			// zip: pair the i-th values; complete once a finished source's queue is drained
			var out []vEv
			var q [2][]int64
			var fin [2]bool
			for _, s := range steps {
				switch s.kind {
				case vkNext:
					q[s.src] = append(q[s.src], s.v)
					if len(q[0]) > 0 && len(q[1]) > 0 {
						out = append(out, vN(q[0][0], q[1][0]))
						q[0], q[1] = q[0][1:], q[1][1:]
					}
				case vkError:
					return append(out, vE(vErrA))
				default:
					fin[s.src] = true
				}
				if (fin[0] && len(q[0]) == 0) || (fin[1] && len(q[1]) == 0) {
					return append(out, vC())
				}
			}
			return out
		}},
	{name: "RaceWith", nsrc: 2,
		mk: func(c *vCtx) vPipeline { return vPipe(RaceWith(c.src[1])(c.src[0]), vFlatInt) },
		ref: func(c *vCtx, steps []vMStep) []vEv {
			// race mirrors the first source to notify
			var out []vEv
			won := -1
			for _, s := range steps {
				if won == -1 {
					won = s.src
				}
				if s.src != won {
					continue
				}
				switch s.kind {
				case vkNext:
					out = append(out, vN(s.v))
				case vkError:
					return append(out, vE(vErrA))
				default:
					return append(out, vC())
				}
			}
			return out
		}},
	{name: "TakeUntil", nsrc: 2,
		mk: func(c *vCtx) vPipeline { return vPipe(TakeUntil[int64](c.src[1])(c.src[0]), vFlatInt) },
		ref: func(c *vCtx, steps []vMStep) []vEv {
			var out []vEv
			for _, s := range steps {
				if s.src == 1 {
					if s.kind == vkNext {
						return append(out, vC())
					}
					continue // completion / error of the notifier: left free (see DESIGN)
				}
				switch s.kind {
				case vkNext:
					out = append(out, vN(s.v))
				case vkError:
					return append(out, vE(vErrA))
				default:
					return append(out, vC())
				}
			}
			return out
		}},
	{name: "SkipUntil", nsrc: 2,
		mk: func(c *vCtx) vPipeline { return vPipe(SkipUntil[int64](c.src[1])(c.src[0]), vFlatInt) },
		ref: func(c *vCtx, steps []vMStep) []vEv {
			var out []vEv
			open := false
			for _, s := range steps {
				if s.src == 1 {
					if s.kind == vkNext {
						open = true
					}
					continue
				}
				switch s.kind {
				case vkNext:
					if open {
						out = append(out, vN(s.v))
					}
				case vkError:
					return append(out, vE(vErrA))
				default:
					return append(out, vC())
				}
			}
			return out
		}},
}

func vC05Multi(T int) {
	op := &vMCatalog[vChoice("entry", len(vMCatalog))]
	probes := make([]*vProbe, op.nsrc)
	srcs := make([]Observable[int64], op.nsrc)
	for i := range probes {
		probes[i] = &vProbe{name: "src" + vItoa(i)}
		srcs[i] = probes[i]
	}
	var steps []vMStep
	// one source (or none) delivers a first value inside its own subscribe call, as a subject with a
	// current value, a replay or StartWith does: that notification arrives when the operator
	// subscribes the source, before the operator holds the subscription
	if k := vChoice("sync", op.nsrc+1); k < op.nsrc {
		probes[k].cold, probes[k].script = true, []vStep{{vkNext, vInt64("v_sync")}}
		probes[k].mlog, probes[k].midx = &steps, k
	}
	c := &vCtx{src: srcs, L: T}
	pipe := op.mk(c)
	rec := &vRecorder{}
	returned := false
	var sub Subscription
	vGo(func() {
		sub = pipe(context.Background(), rec)
		returned = true
	})
	vQuiesce()
	ended := make([]bool, op.nsrc)
	for t := 0; t < T; t++ {
		s := vMStep{src: vChoice("src"+vItoa(t), op.nsrc), kind: vChoice("k"+vItoa(t), 3)}
		if ended[s.src] {
			vAssume(false) // each source's own script is legal
		}
		p := probes[s.src]
		if p.subs == 0 {
			vAssume(false) // the source has not been subscribed yet (concat subscribes lazily)
		}
		if s.kind == vkNext {
			s.v = vInt64("v" + vItoa(t))
		} else {
			ended[s.src] = true
		}
		steps = append(steps, s)
		if p.live > 0 {
			// a released source emits nothing more; the definition still sees the step,
			// so releasing a source that is still needed shows up as a lost notification
			p.emit(vStep{s.kind, s.v})
		}
		vQuiesce()
	}
	want := op.ref(c, steps)
	vCheckGrammar(op.name, rec)
	vSameEvents(op.name, rec.evs, want)
	if n := len(rec.evs); n > 0 && rec.evs[n-1].kind != vkNext {
		// the output terminated: every source has been released and Subscribe has returned
		for _, p := range probes {
			vAssert(p.live == 0, op.name+": a source is still subscribed after the output terminated")
		}
		vAssert(returned, op.name+": the Subscribe call is still blocked after the output terminated")
		run, blk := vLive()
		vAssert(run+blk == 0, op.name+": a library goroutine is left after the output terminated")
	}
	_ = sub
	vReach("end")
}

func vhC05_multi_T3() { vC05Multi(3) }
func vhC05_multi_T4() { vC05Multi(4) }
func vhC05_multi_T5() { vC05Multi(5) }
