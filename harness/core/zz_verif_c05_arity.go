package ro

import (
	"context"

	"github.com/samber/lo"
)

// C05 / C04 for the per-arity variants of the multi-source operators (ZipN, ZipWithN,
// CombineLatestN, CombineLatestWithN, MergeWithN are written out arity by arity in the library):
// every arity against the same reference model as its small sibling.  The step-by-step driver of
// vhC05_multi would explode with 4–6 sources, so each source draws its script from a few templates
// and the sources take turns (round-robin, starting from a symbolic source): enough to place "the
// shortest source", "the source that fails", "the source that completes with values queued" at
// every position of every arity.

func vaFlatT3(t lo.Tuple3[int64, int64, int64]) []int64 { return []int64{t.A, t.B, t.C} }
func vaFlatT4(t lo.Tuple4[int64, int64, int64, int64]) []int64 {
	return []int64{t.A, t.B, t.C, t.D}
}
func vaFlatT5(t lo.Tuple5[int64, int64, int64, int64, int64]) []int64 {
	return []int64{t.A, t.B, t.C, t.D, t.E}
}
func vaFlatT6(t lo.Tuple6[int64, int64, int64, int64, int64, int64]) []int64 {
	return []int64{t.A, t.B, t.C, t.D, t.E, t.F}
}

type vArityOp struct {
	name string
	nsrc int
	mk   func(s []Observable[int64]) vPipeline
	ref  func(c *vCtx, steps []vMStep) []vEv
}

var vArityCatalog = []vArityOp{
	{"Zip3", 3, func(s []Observable[int64]) vPipeline { return vPipe(Zip3(s[0], s[1], s[2]), vaFlatT3) }, vmRefZip(3, false)},
	{"Zip4", 4, func(s []Observable[int64]) vPipeline { return vPipe(Zip4(s[0], s[1], s[2], s[3]), vaFlatT4) }, vmRefZip(4, false)},
	{"Zip5", 5, func(s []Observable[int64]) vPipeline {
		return vPipe(Zip5(s[0], s[1], s[2], s[3], s[4]), vaFlatT5)
	}, vmRefZip(5, false)},
	{"Zip6", 6, func(s []Observable[int64]) vPipeline {
		return vPipe(Zip6(s[0], s[1], s[2], s[3], s[4], s[5]), vaFlatT6)
	}, vmRefZip(6, false)},
	{"ZipWith2", 3, func(s []Observable[int64]) vPipeline {
		return vPipe(ZipWith2[int64](s[1], s[2])(s[0]), vaFlatT3)
	}, vmRefZip(3, false)},
	{"ZipWith3", 4, func(s []Observable[int64]) vPipeline {
		return vPipe(ZipWith3[int64](s[1], s[2], s[3])(s[0]), vaFlatT4)
	}, vmRefZip(4, false)},
	{"ZipWith4", 5, func(s []Observable[int64]) vPipeline {
		return vPipe(ZipWith4[int64](s[1], s[2], s[3], s[4])(s[0]), vaFlatT5)
	}, vmRefZip(5, false)},
	{"ZipWith5", 6, func(s []Observable[int64]) vPipeline {
		return vPipe(ZipWith5[int64](s[1], s[2], s[3], s[4], s[5])(s[0]), vaFlatT6)
	}, vmRefZip(6, false)},
	{"CombineLatest3", 3, func(s []Observable[int64]) vPipeline {
		return vPipe(CombineLatest3(s[0], s[1], s[2]), vaFlatT3)
	}, vmRefCombine(3, false)},
	{"CombineLatest4", 4, func(s []Observable[int64]) vPipeline {
		return vPipe(CombineLatest4(s[0], s[1], s[2], s[3]), vaFlatT4)
	}, vmRefCombine(4, false)},
	{"CombineLatest5", 5, func(s []Observable[int64]) vPipeline {
		return vPipe(CombineLatest5(s[0], s[1], s[2], s[3], s[4]), vaFlatT5)
	}, vmRefCombine(5, false)},
	{"CombineLatestWith3", 4, func(s []Observable[int64]) vPipeline {
		return vPipe(CombineLatestWith3[int64](s[1], s[2], s[3])(s[0]), vaFlatT4)
	}, vmRefCombine(4, false)},
	{"CombineLatestWith4", 5, func(s []Observable[int64]) vPipeline {
		return vPipe(CombineLatestWith4[int64](s[1], s[2], s[3], s[4])(s[0]), vaFlatT5)
	}, vmRefCombine(5, false)},
	{"MergeWith3", 4, func(s []Observable[int64]) vPipeline {
		return vPipe(MergeWith3(s[1], s[2], s[3])(s[0]), vFlatInt)
	}, vmRefMerge(4)},
	{"MergeWith4", 5, func(s []Observable[int64]) vPipeline {
		return vPipe(MergeWith4(s[1], s[2], s[3], s[4])(s[0]), vFlatInt)
	}, vmRefMerge(5)},
	{"MergeWith5", 6, func(s []Observable[int64]) vPipeline {
		return vPipe(MergeWith5(s[1], s[2], s[3], s[4], s[5])(s[0]), vFlatInt)
	}, vmRefMerge(6)},
}

// script templates of one source (value payloads are filled in by the harness)
// (-1: the source stays quiet in that round, so its first value comes after another source's
// completion)
var vArityTemplates = [][]int{
	{vkNext, vkComplete},
	{-1, vkNext, vkComplete},
	{vkNext, vkNext, vkComplete},
	{vkComplete},
	{vkNext},
	{vkNext, vkError},
}

func vC05Arity(maxSrc, templates int) {
	op := &vArityCatalog[vChoice("entry", len(vArityCatalog))]
	if op.nsrc > maxSrc {
		vAssume(false)
	}
	n := op.nsrc
	probes := make([]*vProbe, n)
	srcs := make([]Observable[int64], n)
	scripts := make([][]int, n)
	for i := 0; i < n; i++ {
		probes[i] = &vProbe{name: "src" + vItoa(i)}
		srcs[i] = probes[i]
		scripts[i] = vArityTemplates[vChoice("tpl"+vItoa(i), templates)]
	}
	c := &vCtx{src: srcs, L: 3}
	pipe := op.mk(srcs)
	rec := &vRecorder{}
	returned := false
	vGo(func() {
		pipe(context.Background(), rec)
		returned = true
	})
	vQuiesce()
	start := vChoice("start", n)
	var steps []vMStep
	for round := 0; round < 3; round++ {
		for k := 0; k < n; k++ {
			i := (start + k) % n
			if round >= len(scripts[i]) {
				continue
			}
			if scripts[i][round] < 0 {
				continue
			}
			st := vMStep{src: i, kind: scripts[i][round], v: int64(100*(i+1) + round)}
			if probes[i].live > 0 {
				probes[i].emit(vStep{st.kind, st.v})
				vQuiesce()
			}
			// the definition sees the step whether or not the operator still listens
			steps = append(steps, st)
		}
	}
	vCheckGrammar(op.name, rec)
	vSameEvents(op.name, rec.evs, op.ref(c, steps))
	if rec.terminals() > 0 {
		for _, p := range probes {
			vAssert(p.live == 0, op.name+": a source is still subscribed after the output terminated")
		}
		vAssert(returned, op.name+": the Subscribe call is still blocked after the output terminated")
	}
	vReach("end")
}

func vhC05_arity_s4() { vC05Arity(4, 6) }
func vhC05_arity_s6() { vC05Arity(6, 4) }
