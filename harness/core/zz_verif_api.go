//go:build !verif

package ro

// Harness API as seen by the symbolic engine (symro): every function below is
// intercepted by name; the bodies are never executed.  The native
// implementations used for replay live in zz_verif_native.go (build tag verif).

func vInt64(name string) int64                 { panic("symro intrinsic") }
func vInt(name string) int                     { panic("symro intrinsic") }
func vBool(name string) bool                   { panic("symro intrinsic") }
func vChoice(name string, n int) int           { panic("symro intrinsic") }
func vUFInt(name string, args ...int64) int64  { panic("symro intrinsic") }
func vUFBool(name string, args ...int64) bool  { panic("symro intrinsic") }
func vAssume(c bool)                           { panic("symro intrinsic") }
func vAssert(c bool, msg string)               { panic("symro intrinsic") }
func vReach(label string)                      { panic("symro intrinsic") }
func vTrace(tag string, vals ...int64)         { panic("symro intrinsic") }
func vGo(f func())                             { panic("symro intrinsic") }
func vYield()                                  { panic("symro intrinsic") }
func vQuiesce()                                { panic("symro intrinsic") }
func vLive() (runnable, blocked int)           { panic("symro intrinsic") }
func vThread() int                             { panic("symro intrinsic") }
func vNow() int64                              { panic("symro intrinsic") }
func vAdvance(d int64)                         { panic("symro intrinsic") }
func vPendingTimers() int                      { panic("symro intrinsic") }
func vSymbolic() bool                          { panic("symro intrinsic") }
func vAnd(a, b bool) bool                      { panic("symro intrinsic") }
func vIte(c bool, a, b int64) int64            { panic("symro intrinsic") }
