package ro

import "context"

// C02 "inside chains": a multi-source operator (two producers in different threads) followed by
// a pass-through stage.  The callbacks of the final observer must not overlap whatever stage
// follows the merge.  Stages built with the unsafe constructor that hand their `destination`
// straight to the upstream subscription are the interesting ones: the subscriber created first
// (theirs, lock-free) is reused by the safe operator upstream instead of being wrapped.
func vC02ChainUnsafe(n int) {
	a, b := &vProbe{name: "a"}, &vProbe{name: "b"}
	merged := MergeWith1[int64](b)(a)
	name := ""
	var obs Observable[int64]
	switch vChoice("tail", 8) {
	case 0:
		name, obs = "Map", Map(func(v int64) int64 { return v })(merged)
	case 1:
		name, obs = "TapOnFinalize", TapOnFinalize[int64](func() {})(merged)
	case 2:
		name, obs = "TapOnSubscribe", TapOnSubscribe[int64](func() {})(merged)
	case 3:
		name, obs = "StartWith", StartWith[int64](0)(merged)
	case 4:
		name, obs = "Defer", Defer(func() Observable[int64] { return merged })
	case 5:
		name, obs = "Skip(0)", Skip[int64](0)(merged)
	case 6:
		name, obs = "Take", Take[int64](int64(2*n+1))(merged)
	default:
		name, obs = "Filter", Filter(func(int64) bool { return true })(merged)
	}
	rec := &vRecorder{name: "m", yield: true, quiet: true}
	obs.SubscribeWithContext(context.Background(), vObs(rec, vFlatInt))
	vQuiesce()
	for t, p := range []*vProbe{a, b} {
		t, p := t, p
		vGo(func() {
			for i := 0; i < n; i++ {
				if p.live > 0 {
					p.emit(vStep{vkNext, int64(10*(t+1) + i)})
				}
			}
		})
	}
	vQuiesce()
	vAssert(!rec.overlap, "Merge|"+name+": callbacks of one observer overlapped (two sequential sources emitting at the same time)")
	vCheckGrammar("Merge|"+name, rec)
	vReach("end")
}

func vhC02_chainunsafe_n1() { vC02ChainUnsafe(1) }
func vhC02_chainunsafe_n2() { vC02ChainUnsafe(2) }
