package ro

import "context"

// Sequential definition of the five subjects (C10, first half): a reference
// model written from the property statement.
//
//	publish : no replay; after termination: the stored terminal only
//	behavior: the latest value on subscription; after termination: the terminal only
//	replay N: the last N values, also after termination, then the terminal
//	async   : nothing until completion, then the final value (if any) and Complete;
//	          an error is forwarded alone
//	unicast : the whole queued backlog (bounded by the buffer size, oldest dropped)
//	          to the next subscriber — also after termination — then the terminal;
//	          one subscriber at a time (a second one gets ErrUnicastSubjectConcurrent)
const (
	vsPublish = iota
	vsBehavior
	vsReplay
	vsAsync
	vsUnicast
)

type vModelSub struct {
	want   []vEv
	active bool
	late   bool // subscribed after the subject had terminated
	self   bool // unsubscribes itself inside its first callback
	resub  bool // (Share model) subscribes again from inside its terminal callback
}

// deliver appends an event to a subscriber's expectation, honouring self-unsubscription:
// only the first notification reaches an observer that unsubscribes itself in its first callback.
func (s *vModelSub) deliver(e vEv) {
	if s.self && len(s.want) > 0 {
		return
	}
	s.want = append(s.want, e)
	if s.self {
		s.active = false
	}
}

type vSubjModel struct {
	kind    int
	bufSize int64 // -1 unlimited
	status  int   // 0 open, 1 error, 2 complete
	buf     []int64
	subs    []*vModelSub
}

func (m *vSubjModel) trim() {
	if m.bufSize >= 0 {
		for int64(len(m.buf)) > m.bufSize {
			m.buf = m.buf[1:]
		}
	}
}

func (m *vSubjModel) activeCount() int {
	n := 0
	for _, s := range m.subs {
		if s.active {
			n++
		}
	}
	return n
}

func (m *vSubjModel) next(v int64) {
	if m.status != 0 {
		return
	}
	switch m.kind {
	case vsPublish:
	case vsBehavior, vsAsync:
		m.buf = []int64{v}
	case vsReplay:
		m.buf = append(m.buf, v)
		m.trim()
	case vsUnicast:
		if m.activeCount() == 0 {
			m.buf = append(m.buf, v)
			m.trim()
		}
	}
	if m.kind != vsAsync {
		for _, s := range m.subs {
			if s.active {
				s.deliver(vN(v))
			}
		}
	}
}

func (m *vSubjModel) terminate(kind int) {
	if m.status != 0 {
		return
	}
	m.status = kind
	for _, s := range m.subs {
		if !s.active {
			continue
		}
		if kind == vkComplete {
			if m.kind == vsAsync && len(m.buf) > 0 {
				s.deliver(vN(m.buf[0]))
			}
			s.deliver(vC())
		} else {
			s.deliver(vE(vErrA))
		}
		s.active = false
	}
}

func (m *vSubjModel) subscribe() *vModelSub { return m.subscribeX(false) }

func (m *vSubjModel) subscribeX(self bool) *vModelSub {
	s := &vModelSub{self: self}
	m.subs = append(m.subs, s)
	term := func() {
		if m.status == vkComplete {
			s.deliver(vC())
		} else {
			s.deliver(vE(vErrA))
		}
	}
	if m.status != 0 {
		s.late = true
		switch m.kind {
		case vsReplay, vsUnicast:
			for _, v := range m.buf {
				s.deliver(vN(v))
			}
			if m.kind == vsUnicast {
				m.buf = nil
			}
		case vsAsync:
			if m.status == vkComplete && len(m.buf) > 0 {
				s.deliver(vN(m.buf[0]))
			}
		}
		term()
		return s
	}
	s.active = true
	switch m.kind {
	case vsBehavior, vsReplay:
		for _, v := range m.buf {
			s.deliver(vN(v))
		}
	case vsUnicast:
		if m.activeCount() > 1 {
			s.active = false
			s.want = append(s.want, vEv{kind: vkError, err: ErrUnicastSubjectConcurrent})
			return s
		}
		for _, v := range m.buf {
			s.deliver(vN(v))
		}
		m.buf = nil
	}
	return s
}

func vNewSubject(kind int, bufSize int64, initial int64) Subject[int64] {
	switch kind {
	case vsPublish:
		return NewPublishSubject[int64]()
	case vsBehavior:
		return NewBehaviorSubject[int64](initial)
	case vsReplay:
		return NewReplaySubject[int64](int(bufSize))
	case vsAsync:
		return NewAsyncSubject[int64]()
	}
	return NewUnicastSubject[int64](int(bufSize))
}

func vSubjName(kind int) string {
	return [...]string{"publish", "behavior", "replay", "async", "unicast"}[kind]
}

func vErrCodeX(err error) int64 {
	if err == ErrUnicastSubjectConcurrent {
		return 7
	}
	return vErrCode(err)
}

// vC10Seq: every operation sequence of length K over {Next v, Error, Complete,
// Subscribe, Unsubscribe i} with at most 3 subscribers, against the model; the
// status queries must agree after every step.
func vC10Seq(kind int, K int) {
	name := vSubjName(kind)
	bufSize := int64(-1)
	if kind == vsReplay || kind == vsUnicast {
		if vChoice("unlimited", 2) == 0 {
			bufSize = vInt64("buf")
			vAssume(bufSize >= 0) // replay 0: a late subscriber gets nothing of the past
			vAssume(bufSize <= 3)
		}
	}
	initial := int64(0)
	m := &vSubjModel{kind: kind, bufSize: bufSize}
	if kind == vsBehavior {
		initial = vInt64("init")
		m.buf = []int64{initial}
	}
	subj := vNewSubject(kind, bufSize, initial)
	var recs []*vRecorder
	var subs []Subscription
	for step := 0; step < K; step++ {
		switch vChoice("op"+vItoa(step), 6) {
		case 0:
			v := vInt64("v" + vItoa(step))
			subj.NextWithContext(context.Background(), v)
			m.next(v)
		case 1:
			subj.ErrorWithContext(context.Background(), vErrA)
			m.terminate(vkError)
		case 2:
			subj.CompleteWithContext(context.Background())
			m.terminate(vkComplete)
		case 3:
			if len(recs) >= 3 {
				vAssume(false)
			}
			rec := &vRecorder{name: "s" + vItoa(len(recs))}
			recs = append(recs, rec)
			subs = append(subs, subj.SubscribeWithContext(context.Background(), vObs(rec, vFlatInt)))
			m.subscribe()
		case 5:
			// an observer (itself a Subscriber) that unsubscribes in its first callback — possibly
			// while the subject is still replaying its backlog to it inside Subscribe
			if len(recs) >= 3 || kind == vsUnicast {
				vAssume(false)
			}
			rec := &vRecorder{name: "s" + vItoa(len(recs))}
			recs = append(recs, rec)
			var self Subscriber[int64]
			rec.hook = func(r *vRecorder, k int, idx int) {
				if idx == 0 {
					self.Unsubscribe()
				}
			}
			self = NewSubscriber(vObs(rec, vFlatInt))
			subs = append(subs, subj.SubscribeWithContext(context.Background(), self))
			m.subscribeX(true)
		default:
			if len(subs) == 0 {
				vAssume(false)
			}
			i := vChoice("who"+vItoa(step), len(subs))
			subs[i].Unsubscribe()
			m.subs[i].active = false
		}
		vAssert(subj.IsClosed() == (m.status != 0), name+": IsClosed disagrees with the definition")
		vAssert(subj.HasThrown() == (m.status == vkError), name+": HasThrown disagrees with the definition")
		vAssert(subj.IsCompleted() == (m.status == vkComplete), name+": IsCompleted disagrees with the definition")
		vAssert(subj.CountObservers() == m.activeCount(), name+": CountObservers disagrees with the definition")
		vAssert(subj.HasObserver() == (m.activeCount() > 0), name+": HasObserver disagrees with the definition")
	}
	for i, rec := range recs {
		vCheckGrammar(name, rec)
		got := rec.evs
		want := m.subs[i].want
		who := name + ": subscriber"
		if m.subs[i].late {
			who = name + ": subscriber arriving after termination"
		}
		vAssert(len(got) == len(want), who+" received a different number of notifications than the definition prescribes")
		acc := true
		for j := range got {
			vAssert(got[j].kind == want[j].kind, name+": notification kind differs from the definition")
			if got[j].kind == vkError {
				vAssert(vErrCodeX(got[j].err) == vErrCodeX(want[j].err), name+": error differs from the definition")
			}
			if got[j].kind == vkNext {
				acc = vAnd(acc, got[j].vals[0] == want[j].vals[0])
			}
		}
		vAssert(acc, name+": delivered values differ from the definition")
	}
	vReach("end")
}

func vhC10_seq_publish_K4()  { vC10Seq(vsPublish, 4) }
func vhC10_seq_behavior_K4() { vC10Seq(vsBehavior, 4) }
func vhC10_seq_replay_K4()   { vC10Seq(vsReplay, 4) }
func vhC10_seq_async_K4()    { vC10Seq(vsAsync, 4) }
func vhC10_seq_unicast_K4()  { vC10Seq(vsUnicast, 4) }
func vhC10_seq_publish_K5()  { vC10Seq(vsPublish, 5) }
func vhC10_seq_behavior_K5() { vC10Seq(vsBehavior, 5) }
func vhC10_seq_replay_K5()   { vC10Seq(vsReplay, 5) }
func vhC10_seq_async_K5()    { vC10Seq(vsAsync, 5) }
func vhC10_seq_unicast_K5()  { vC10Seq(vsUnicast, 5) }
