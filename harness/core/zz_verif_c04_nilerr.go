package ro

import (
	"context"
	"math"
)

// C04 / C17: a stream may end with Error(nil) (the library prints such a notification as
// "Error(nil)").  For every single-source entry with a reference: what the entry does with an
// error ending, it does with Error(nil) too — same values, an Error notification where the
// reference has one, and the error it carries is still nil when it is the source's own.
func vC04NilErr(L int) {
	op := &vCatalog[vChoice("entry", len(vCatalog))]
	if op.nsrc != 1 || op.ref == nil || op.name == "Catch" {
		// (Catch: the harness's own handler is an uninterpreted function of the error it is handed,
		// so its reference for "an error" does not carry over to another error value)
		vAssume(false)
	}
	n := vChoice("n", L+1)
	var in []vStep
	for i := 0; i < n; i++ {
		in = append(in, vStep{vkNext, vInt64("v" + vItoa(i))})
	}
	in = append(in, vStep{kind: vkError})
	p := &vProbe{name: "src", nilError: true, cold: true, script: in}
	c := &vCtx{src: []Observable[int64]{p}, L: L}
	pipe := op.mk(c)
	rec := &vRecorder{}
	pipe(context.Background(), rec)
	want := op.ref(c, in)
	vCheckGrammar(op.name, rec)
	vAssert(len(rec.evs) == len(want), op.name+": with a source ending in Error(nil) the number of notifications differs from the reference for an error ending")
	for i := range want {
		vAssert(rec.evs[i].kind == want[i].kind, op.name+": with a source ending in Error(nil) the notification kind differs from the reference for an error ending (an Error(nil) is still an error)")
		if want[i].kind == vkError && vErrCode(want[i].err) == 1 {
			// the reference forwards the source's error: here that error is nil
			vAssert(rec.evs[i].err == nil, op.name+": the source's Error(nil) came out carrying a non-nil error")
		}
	}
	vReach("end")
}

func vhC04_nilerr_L2() { vC04NilErr(2) }
func vhC04_nilerr_L3() { vC04NilErr(3) }

// C09 / C01 plumbing of the float operators on CONCRETE values (floats are outside the bit-vector
// encoding; what is decided here is not the arithmetic but that every branch of these operators —
// ordinary, overflowing into math/big, underflowing, NaN/Inf — forwards the context it was given,
// keeps the grammar and emits exactly one value per input value).
func vC09Float() {
	vals := []float64{1.5, -1.5, 1.5e300, -2.5e300, 1e-200, -1e-200, math.Inf(1), math.NaN(), 0}
	places := []int{0, 2, 10, 400, -2, -200, -400}
	pl := places[vChoice("places", len(places))]
	var op func(Observable[float64]) Observable[float64]
	name := ""
	switch vChoice("op", 5) {
	case 0:
		name, op = "CeilWithPrecision", CeilWithPrecision(pl)
	case 1:
		name, op = "FloorWithPrecision", FloorWithPrecision(pl)
	case 2:
		name, op = "Ceil", Ceil()
	case 3:
		name, op = "Floor", Floor()
	default:
		name, op = "Abs", Abs()
	}
	k1, k2 := vChoice("v1", len(vals)), vChoice("v2", len(vals))
	p := &vProbe{name: "src", itemCtx: true}
	src := Map(func(i int64) float64 { return vals[i] })(p)
	var ctxs []context.Context
	var kinds []int
	op(src).SubscribeWithContext(context.WithValue(context.Background(), vKeySub, int64(7)), NewObserverWithContext(
		func(ctx context.Context, v float64) { ctxs = append(ctxs, ctx); kinds = append(kinds, vkNext) },
		func(ctx context.Context, err error) { ctxs = append(ctxs, ctx); kinds = append(kinds, vkError) },
		func(ctx context.Context) { ctxs = append(ctxs, ctx); kinds = append(kinds, vkComplete) },
	))
	p.emit(vStep{vkNext, int64(k1)})
	p.emit(vStep{vkNext, int64(k2)})
	p.emit(vStep{kind: vkComplete})
	vAssert(len(kinds) == 3 && kinds[0] == vkNext && kinds[1] == vkNext && kinds[2] == vkComplete, name+": not exactly one value per input value followed by the completion")
	want := []int64{int64(k1), int64(k2)}
	for i, ctx := range ctxs {
		vAssert(ctx != nil, name+": a callback was invoked with a nil context")
		m, ok := ctx.Value(vKeySub).(int64)
		vAssert(ok && m == 7, name+": a context value attached at subscription is lost")
		if i < 2 {
			it, ok := ctx.Value(vKeyItem).(int64)
			vAssert(ok && it == want[i], name+": the per-item context value attached upstream is lost")
		}
	}
	vReach("end")
}

func vhC09_float() { vC09Float() }

// C04 for Average on CONCRETE values chosen by the solver-decided choice variables from a table that
// reaches the ends of a narrow element type (the float quotient itself is outside the bit-vector
// encoding: what is decided is which table entries are combined, the arithmetic runs on concrete
// floats in the engine and natively): the mean of the emitted values, not of a wrapped sum.
func vC04AverageOf[T int8 | int16 | int64 | uint8](name string, vals []T) {
	n := vChoice("n", 4)
	var in []T
	want := float64(0)
	for i := 0; i < n; i++ {
		v := vals[vChoice("v", len(vals))]
		in = append(in, v)
		want += float64(v)
	}
	var got []float64
	done := false
	Average[T]()(FromSlice(in)).Subscribe(NewObserver(
		func(v float64) { got = append(got, v) },
		func(err error) { vAssert(false, name+": Average failed on a source that completed") },
		func() { done = true },
	))
	vAssert(done && len(got) == 1, name+": Average did not emit exactly one value followed by the completion")
	if n == 0 {
		vAssert(got[0] != got[0], name+": Average of an empty stream is not NaN")
	} else {
		vAssert(got[0] == want/float64(n), name+": Average is not the mean of the emitted values [wrapped or truncated accumulation]")
	}
	vReach("end")
}

func vhC04_average() {
	switch vChoice("type", 4) {
	case 0:
		vC04AverageOf("Average[int8]", []int8{127, 100, -128, 1, 0})
	case 1:
		vC04AverageOf("Average[uint8]", []uint8{255, 200, 1, 0})
	case 2:
		vC04AverageOf("Average[int16]", []int16{32767, -32768, 3, 0})
	default:
		vC04AverageOf("Average[int64]", []int64{math.MaxInt64, math.MinInt64, 1 << 53, 7, 0})
	}
}
