package ro

import "time"

// Time-driven operators with a period far beyond anything the zero-time harnesses let pass (these
// harnesses never call vAdvance; an idle clock step is at most 32 firings of timers that are due,
// and an hour never becomes due before the harness ends).  With the clock standing still they
// reduce to their untimed counterparts, which gives them a reference and puts their locking,
// teardown and early-termination behaviour under the catalogue-wide checks (C03, C06, C07, C09,
// C12, C14).  Their timing is the subject of the C16 harnesses.
const vLong = time.Hour

var vCatalogTime = []vOp{
	{name: "BufferWithTimeOrCount", nsrc: 1,
		mk: func(c *vCtx) vPipeline {
			return vPipe(BufferWithTimeOrCount[int64](int(vParam(c, 0, "n", 1)), vLong)(c.src[0]), vFlatSlice)
		},
		ref: func(c *vCtx, in []vStep) []vEv {
			// full buffers are emitted as they fill; completion flushes what is left "even if
			// buffer is empty" (TestOperatorTransformationBufferWithTimeOrCount: Empty() gives
			// {{}}); an error ends the output at once
			var out []vEv
			var buf []int64
			for _, v := range vVals(in) {
				buf = append(buf, v)
				if int64(len(buf)) >= c.p[0] {
					out = append(out, vN(vFlatSlice(buf)...))
					buf = nil
				}
			}
			if vEnd(in) == vkComplete {
				out = append(out, vN(vFlatSlice(buf)...))
			}
			return vTail(out, in)
		}},
	{name: "BufferWithTime", nsrc: 1,
		mk: func(c *vCtx) vPipeline { return vPipe(BufferWithTime[int64](vLong)(c.src[0]), vFlatSlice) },
		ref: func(c *vCtx, in []vStep) []vEv {
			// BufferWhen(Interval(d)) with a boundary that never ticks (see the BufferWhen entry)
			var out []vEv
			if vEnd(in) == vkComplete {
				out = append(out, vN(vFlatSlice(vVals(in))...))
			}
			return vTail(out, in)
		}},
	{name: "Timeout", nsrc: 1,
		mk:  func(c *vCtx) vPipeline { return vPipe(Timeout[int64](vLong)(c.src[0]), vFlatInt) },
		ref: vRefPass},
}

func init() { vCatalog = append(vCatalog, vCatalogTime...) }
