package ro

import "context"

// Higher-order operators fed by an ASYNCHRONOUS outer source: the list of inner observables arrives
// from another goroutine after the operator's Subscribe has returned (so its teardown is already
// registered when the inner sources get subscribed) — the other half of the "...All(Just)" entries,
// whose outer source is synchronous.

// vAsyncOuter emits the given inner observables, then completes, from a thread of its own.
func vAsyncOuter(inner ...Observable[int64]) Observable[Observable[int64]] {
	return NewUnsafeObservableWithContext(func(ctx context.Context, d Observer[Observable[int64]]) Teardown {
		vGo(func() {
			for _, in := range inner {
				d.NextWithContext(ctx, in)
			}
			d.CompleteWithContext(ctx)
		})
		return nil
	})
}

var vMCatalogAsync = []vMOp{
	{name: "MergeAll(async)", nsrc: 2,
		mk: func(c *vCtx) vPipeline {
			return vPipe(MergeAll[int64]()(vAsyncOuter(c.src[0], c.src[1])), vFlatInt)
		},
		ref: vmRefMerge(2)},
	{name: "CombineLatestAll(async)", nsrc: 2,
		mk: func(c *vCtx) vPipeline {
			return vPipe(CombineLatestAll[int64]()(vAsyncOuter(c.src[0], c.src[1])), vFlatSlice)
		},
		ref: vmRefCombine(2, true)},
	{name: "ZipAll(async)", nsrc: 2,
		mk: func(c *vCtx) vPipeline {
			return vPipe(ZipAll[int64]()(vAsyncOuter(c.src[0], c.src[1])), vFlatSlice)
		},
		ref: vmRefZip(2, true)},
}

func init() { vMCatalog = append(vMCatalog, vMCatalogAsync...) }
