package ro

import (
	"context"
	"errors"
)

// C07(a): every catalogue entry with user callbacks; the idx-th invocation of
// one callback panics (error value or arbitrary value).  The panic never
// escapes into the goroutine that called Next/Subscribe; the subscriber gets
// exactly one Error that still matches the cause (for error values), after the
// values emitted before it and with nothing after it; the source is released.
func vC07Cb(L int) {
	op := &vCatalog[vChoice("entry", len(vCatalog))]
	if op.nsrc != 1 || len(op.cbs) == 0 {
		vAssume(false)
	}
	hooks := vInstallHooks()
	in := vLegalScript("s", L)
	rec := &vRecorder{}
	plan := &vFaultPlan{pos: op.cbs[vChoice("fpos", len(op.cbs))], idx: vChoice("fidx", L), kind: vChoice("fkind", 2), counts: map[string]int{}, rec: rec}
	vFault = plan
	defer func() { vFault = nil }()
	p := &vProbe{name: "src"}
	hot := vChoice("hot", 2) == 1
	if !hot {
		p.cold = true
		p.script = in
	}
	c := &vCtx{src: []Observable[int64]{p}, L: L}
	var escaped interface{}
	func() {
		defer func() { escaped = recover() }()
		pipe := op.mk(c)
		pipe(context.Background(), rec)
		if hot {
			for _, st := range in {
				p.emit(st)
			}
		}
	}()
	vAssert(escaped == nil, op.name+": a panic in a user callback escaped into the caller of Next/Subscribe")
	vCheckGrammar(op.name, rec)
	if plan.fired > 0 {
		vAssert(plan.fired == 1, op.name+": the callback kept being invoked after it had failed")
		n := len(rec.evs)
		if plan.termsAtFire > 0 {
			// the output had already terminated when the callback failed: nobody can
			// receive the failure, it must reach one of the hooks
			vAssert(hooks.unhandled+hooks.dropped > 0, op.name+": a failure nobody can receive did not reach the unhandled-error hook")
		} else {
			vAssert(n > 0 && rec.evs[n-1].kind == vkError, op.name+": a panic in a user callback did not surface as an Error notification")
			if plan.kind == 0 {
				vAssert(errors.Is(rec.evs[n-1].err, vErrB), op.name+": the Error notification does not match the original cause")
			}
			vAssert(p.live == 0, op.name+": the source was not released after the failure")
		}
	}
	vReach("end")
}

func vhC07_cb_L2() { vC07Cb(2) }
func vhC07_cb_L3() { vC07Cb(3) }

// C07(b): the subscribe function and the final observer's three callbacks.
func vC07Core(L int) {
	hooks := vInstallHooks()
	in := vLegalScript("s", L)
	where := vChoice("where", 5) // 0 subscribe fn, 1 onNext, 2 onError, 3 onComplete, 4 the returned teardown
	at := vChoice("at", L+1)
	kind := vChoice("fkind", 2)
	boom := func() {
		if kind == 0 {
			panic(vErrB)
		}
		panic("verif: arbitrary panic value")
	}
	rec := &vRecorder{}
	fired := 0
	rec.hook = func(r *vRecorder, k int, idx int) {
		if (where == 1 && k == vkNext && r.nexts()-1 == at) || (where == 2 && k == vkError) || (where == 3 && k == vkComplete) {
			fired++
			boom()
		}
	}
	mode := vChoice("mode", 2)
	subscribe := func(ctx context.Context, d Observer[int64]) Teardown {
		for i, st := range in {
			if where == 0 && i == at {
				fired++
				boom()
			}
			vEmit(d, ctx, st)
		}
		if where == 0 && at == len(in) {
			fired++
			boom()
		}
		if where == 4 {
			return func() {
				fired++
				boom()
			}
		}
		return nil
	}
	var obs Observable[int64]
	if mode == 0 {
		obs = NewSafeObservableWithContext(subscribe)
	} else {
		obs = NewUnsafeObservableWithContext(subscribe)
	}
	var escaped interface{}
	var sub Subscription
	func() {
		defer func() { escaped = recover() }()
		sub = obs.SubscribeWithContext(context.WithValue(context.Background(), vKeySub, int64(7)), vObs(rec, vFlatInt))
	}()
	vAssert(escaped == nil, "core: a panic in a user function escaped into the caller of Subscribe")
	for _, e := range rec.evs {
		// C09: the Error a failure turns into is a notification like any other
		vAssert(e.ctx != nil, "core: a callback was invoked with a nil context")
		m, ok := e.ctx.Value(vKeySub).(int64)
		vAssert(ok && m == 7, "core: a context value attached at subscription is lost (on the notification a failure turned into)")
	}
	vCheckGrammar("core", rec)
	if fired > 0 {
		switch where {
		case 0:
			// the failure of the subscribe function reaches the subscriber unless the stream had already terminated
			if rec.terminals() == 0 || rec.evs[len(rec.evs)-1].kind == vkError {
				n := len(rec.evs)
				vAssert(n > 0 && rec.evs[n-1].kind == vkError, "core: a panic in the subscribe function did not surface as an Error notification")
				if kind == 0 && vErrCode(rec.evs[n-1].err) != 1 {
					vAssert(errors.Is(rec.evs[n-1].err, vErrB), "core: the Error notification does not match the original cause")
				}
			} else {
				vAssert(hooks.unhandled+hooks.dropped > 0, "core: a failure nobody can receive did not reach the unhandled-error hook")
			}
		case 1:
			// a panic in onNext is reported through onError, once, and ends the stream
			errs := 0
			for _, e := range rec.evs {
				if e.kind == vkError {
					errs++
				}
			}
			vAssert(errs == 1, "core: a panic in the observer's onNext did not surface exactly once as an Error notification")
		case 4:
			// a panicking teardown (run at once when the source terminated synchronously, or by the
			// Unsubscribe below): whatever happens to the panic, no lock may be left held
		default:
			vAssert(hooks.unhandled > 0, "core: a failure nobody can receive did not reach the unhandled-error hook")
		}
	}
	if where == 4 && sub != nil {
		func() {
			defer func() { recover() }() // C03: the caller of Unsubscribe may get the teardown's panic
			sub.Unsubscribe()
		}()
		vAssert(sub.IsClosed(), "core: the subscription is unusable after a panicking teardown")
		sub.Wait()
	}
	if sub != nil {
		vAssert(sub.IsClosed() || rec.terminals() == 0, "core: subscription left open after a terminal")
	}
	vReach("end")
}

func vhC07_core_L2() { vC07Core(2) }
func vhC07_core_L3() { vC07Core(3) }
