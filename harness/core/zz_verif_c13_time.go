package ro

import (
	"context"
	"time"
)

// C13 / C02 for the time-driven operators: the source emits from its own thread while the clock
// passes one period in another, so the operator's timer goroutine and the producer act on the
// operator's state at the same time; the observer yields inside every callback, which keeps a
// timer callback "in progress" while the producer runs.  Checked on every explored schedule:
// no data race inside the library (with -races), the observer's callbacks never overlap, the
// output obeys the grammar, every delivered value was emitted by the source.
func vC13Time(n int) {
	const d = int64(1000)
	p := &vProbe{name: "src"}
	rec := &vRecorder{name: "t", yield: true, quiet: true}
	var pipe vPipeline
	name := ""
	switch vChoice("op", 7) {
	case 0:
		name, pipe = "Timeout", vPipe(Timeout[int64](time.Duration(d))(p), vFlatInt)
	case 1:
		name, pipe = "Delay", vPipe(Delay[int64](time.Duration(d))(p), vFlatInt)
	case 2:
		name, pipe = "SampleTime", vPipe(SampleTime[int64](time.Duration(d))(p), vFlatInt)
	case 3:
		name, pipe = "ThrottleTime", vPipe(ThrottleTime[int64](time.Duration(d))(p), vFlatInt)
	case 4:
		name, pipe = "BufferWithTime", vPipe(BufferWithTime[int64](time.Duration(d))(p), vFlatSlice)
	case 5:
		name, pipe = "BufferWithTimeOrCount", vPipe(BufferWithTimeOrCount[int64](2, time.Duration(d))(p), vFlatSlice)
	default:
		name, pipe = "DelayEach", vPipe(DelayEach[int64](time.Duration(d))(p), vFlatInt)
	}
	sub := pipe(context.Background(), rec)
	vQuiesce()
	end := vChoice("end", 3) // 0: the source goes on, 1: completes, 2: fails
	vGo(func() {
		for i := 0; i < n; i++ {
			if p.live > 0 {
				p.emit(vStep{vkNext, int64(10 + i)})
			}
		}
		if p.live > 0 && end != 0 {
			p.emit(vStep{kind: end})
		}
	})
	vAdvance(d) // one period passes while the producer is at work
	vQuiesce()
	vAdvance(d + d)
	vQuiesce()
	sub.Unsubscribe()
	vQuiesce()
	vAssert(!rec.overlap, name+": callbacks of one observer overlapped (timer goroutine against the producer)")
	vCheckGrammar(name, rec)
	for _, e := range rec.evs {
		if e.kind == vkNext {
			for k, v := range e.vals {
				if name[0] == 'B' && k == 0 {
					continue // length prefix of a flattened buffer
				}
				vAssert(v >= 10 && v < int64(10+n), name+": a value was delivered that the source never emitted")
			}
		}
	}
	vReach("end")
}

func vhC13_time_n1() { vC13Time(1) }
func vhC13_time_n2() { vC13Time(2) }
