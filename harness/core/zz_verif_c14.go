package ro

import "context"

// C14: a never-ending hot probe, a catalogue entry, then an early terminator
// (Take n, First, TakeUntil(signal), a failing downstream callback, external
// Unsubscribe), the cut position symbolic.  The Subscribe call runs in its own
// thread so that operators which wait inside subscribe can be observed.  At
// quiescence — without any further emission — the source has been released,
// Subscribe has returned and no library goroutine is left.
func vC14Early(L int) {
	op := &vCatalog[vChoice("entry", len(vCatalog))]
	if op.nsrc != 1 {
		vAssume(false)
	}
	term := vChoice("term", 5) // 0 Take, 1 First, 2 TakeUntil, 3 failing callback, 4 external Unsubscribe
	sig := &vProbe{name: "signal"}
	vPost = vPostCfg{}
	switch term {
	case 0:
		vPost.take = int64(1 + vChoice("take", L))
	case 1:
		vPost.first = true
	case 2:
		vPost.until = sig
	case 3:
		vPost.fail = int64(1 + vChoice("fail", L))
	}
	p := &vProbe{name: "src"}
	if vChoice("sync", 2) == 1 {
		// the source delivers a first value inside its subscribe call (as a BehaviorSubject, a
		// StartWith or a replay does) and then stays alive: the early terminator may fire before
		// the operator holds the subscription it has to release
		p.cold, p.script = true, []vStep{{vkNext, vInt64("v_sync")}}
	}
	c := &vCtx{src: []Observable[int64]{p}, L: L}
	pipe := op.mk(c)
	rec := &vRecorder{}
	returned := false
	var sub Subscription
	vGo(func() {
		sub = pipe(context.Background(), rec)
		returned = true
	})
	vQuiesce()
	cut := vChoice("cut", L+1)
	for i := 0; i < L; i++ {
		if i == cut {
			break
		}
		if p.live > 0 {
			p.emit(vStep{vkNext, vInt64("v" + vItoa(i))})
		}
		vQuiesce()
	}
	switch term {
	case 2:
		if sig.live > 0 {
			sig.emit(vStep{vkNext, 1})
		}
	case 4:
		if returned {
			sub.Unsubscribe()
		}
	}
	vQuiesce()
	vPost = vPostCfg{}
	vCheckGrammar(op.name, rec)
	down := rec.terminals() > 0 || (term == 4 && returned)
	if down {
		vAssert(p.live == 0, op.name+": the source is still subscribed after the downstream side terminated")
		vAssert(sig.live == 0, op.name+": the notifier is still subscribed after the downstream side terminated")
		vAssert(returned, op.name+": the Subscribe call is still running after the downstream side terminated")
		run, blk := vLive()
		vAssert(run+blk == 0, op.name+": a library goroutine is left after the downstream side terminated")
	}
	vReach("end")
}

func vhC14_early_L2() { vC14Early(2) }
func vhC14_early_L3() { vC14Early(3) }

// C14 for multi-source operators: never-ending hot probes, a multi-source catalogue entry, then an
// early terminator; values are emitted on a symbolic source.  When the downstream side terminates
// every source must be released and the Subscribe call must return.
func vC14Multi(L int) {
	op := &vMCatalog[vChoice("entry", len(vMCatalog))]
	term := vChoice("term", 3) // 0 Take(1..L), 1 First, 2 external Unsubscribe
	vPost = vPostCfg{}
	switch term {
	case 0:
		vPost.take = int64(1 + vChoice("take", L))
	case 1:
		vPost.first = true
	}
	probes := make([]*vProbe, op.nsrc)
	srcs := make([]Observable[int64], op.nsrc)
	syncFirst := vChoice("sync", 2) == 1
	for i := range probes {
		probes[i] = &vProbe{name: "src" + vItoa(i)}
		if syncFirst {
			// every source delivers a first value inside its subscribe call and stays alive
			probes[i].cold, probes[i].script = true, []vStep{{vkNext, vInt64("v_sync" + vItoa(i))}}
		}
		srcs[i] = probes[i]
	}
	c := &vCtx{src: srcs, L: L}
	pipe := op.mk(c)
	rec := &vRecorder{}
	returned := false
	var sub Subscription
	vGo(func() {
		sub = pipe(context.Background(), rec)
		returned = true
	})
	vQuiesce()
	for i := 0; i < L+1; i++ {
		k := vChoice("src"+vItoa(i), op.nsrc)
		if probes[k].live > 0 {
			probes[k].emit(vStep{vkNext, vInt64("v" + vItoa(i))})
		}
		vQuiesce()
	}
	if term == 2 {
		if !returned {
			vAssume(false) // no handle to unsubscribe with while Subscribe is still running
		}
		sub.Unsubscribe()
	}
	vQuiesce()
	vPost = vPostCfg{}
	vCheckGrammar(op.name, rec)
	if rec.terminals() > 0 || term == 2 {
		for _, p := range probes {
			vAssert(p.live == 0, op.name+": a source is still subscribed after the downstream side terminated")
		}
		vAssert(returned, op.name+": the Subscribe call is still running after the downstream side terminated")
		run, blk := vLive()
		vAssert(run+blk == 0, op.name+": a library goroutine is left after the downstream side terminated")
	}
	vReach("end")
}

func vhC14_multi_L1() { vC14Multi(1) }
func vhC14_multi_L2() { vC14Multi(2) }
