package ro

import "context"

// C08 (synchronous part): for every catalogue entry, when probe.Next returns,
// everything that value gave rise to has been delivered on the caller's
// goroutine and no library goroutine exists.
func vC08Sync(L int) {
	op := &vCatalog[vChoice("entry", len(vCatalog))]
	if op.nsrc != 1 {
		vAssume(false)
	}
	in := vLegalScript("s", L)
	p := &vProbe{name: "src"}
	c := &vCtx{src: []Observable[int64]{p}, L: L}
	pipe := op.mk(c)
	rec := &vRecorder{}
	pipe(context.Background(), rec)
	vQuiesce()
	me := vThread()
	// goroutines that exist since subscription (a context watcher ...) are not where values go
	r0, b0 := vLive()
	for _, st := range in {
		p.emit(st)
		run, blk := vLive()
		vAssert(run+blk <= r0+b0, op.name+": a value was handed to a hidden goroutine")
	}
	for _, e := range rec.evs {
		vAssert(e.thread == me, op.name+": a notification was delivered on another goroutine than the producer's")
	}
	vReach("end")
}

func vhC08_sync_L2() { vC08Sync(2) }
func vhC08_sync_L3() { vC08Sync(3) }

// C08 (hand-off part): ObserveOn / SubscribeOn with capacity in [1,2]; the
// producer emits n <= 3 values and a terminal; the consumer is arbitrarily
// slow.  FIFO, no loss, terminal after every queued value, and the producer
// never runs ahead by more than capacity + 2.
func vC08Handoff(n int) {
	which := vChoice("op", 2)
	capa := vInt64("cap")
	vAssume(capa >= 1)
	vAssume(capa <= 2)
	p := &vProbe{name: "src"}
	var obs Observable[int64]
	name := "ObserveOn"
	if which == 0 {
		obs = ObserveOn[int64](int(capa))(p)
	} else {
		name = "SubscribeOn"
		obs = SubscribeOn[int64](int(capa))(p)
	}
	rec := &vRecorder{yield: true, quiet: true}
	returned := false
	var sub Subscription
	vGo(func() {
		sub = obs.SubscribeWithContext(context.Background(), vObs(rec, vFlatInt))
		returned = true
	})
	vQuiesce()
	vAssert(p.subs == 1, name+": the source was not subscribed")
	end := vChoice("end", 2)
	emitted := 0
	for i := 0; i < n; i++ {
		p.emit(vStep{vkNext, int64(100 + i)})
		emitted++
		vAssert(int64(emitted-rec.nexts()) <= capa+2, name+": the producer ran ahead of the consumer by more than capacity+2")
	}
	if end == 0 {
		p.emit(vStep{kind: vkComplete})
	} else {
		p.emit(vStep{kind: vkError})
	}
	vQuiesce()
	vAssert(!rec.overlap, name+": callbacks overlapped")
	vCheckGrammar(name, rec)
	vAssert(len(rec.evs) == n+1, name+": a queued notification was lost or duplicated")
	for i := 0; i < n && i < len(rec.evs); i++ {
		vAssert(rec.evs[i].kind == vkNext && rec.evs[i].vals[0] == int64(100+i), name+": values were not delivered in FIFO order")
	}
	if len(rec.evs) == n+1 {
		vAssert(rec.evs[n].kind != vkNext, name+": the terminal notification was not delivered after the queued values")
	}
	// C06: the stream has terminated, so the Subscribe call has returned, the subscription is closed
	// and Wait returns
	vAssert(returned, name+": the Subscribe call is still running after the terminal notification was delivered")
	if returned {
		vAssert(sub.IsClosed(), name+": the subscription is not closed after the terminal notification was delivered")
		sub.Wait()
	}
	vAssert(p.live == 0, name+": the source is still subscribed after the stream terminated")
	run, blk := vLive()
	vAssert(run+blk == 0, name+": a library goroutine is left after termination")
	vReach("end")
}

func vhC08_handoff_n2() { vC08Handoff(2) }
func vhC08_handoff_n3() { vC08Handoff(3) }
func vhC08_handoff_n4() { vC08Handoff(4) }
func vhC08_handoff_n5() { vC08Handoff(5) }
