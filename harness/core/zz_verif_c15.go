package ro

import "context"

// C15: re-subscribing operators over a scripted cold source whose n-th
// subscription plays the n-th outcome (k <= 2 values then error | complete).
// Attempts run strictly one after another, exactly as many times as the
// configuration and the outcomes dictate, values of every attempt forwarded in
// order, and the final terminal is the one the definition names.

func vAttempts(A, maxVals int) [][]vStep {
	out := make([][]vStep, A)
	for a := 0; a < A; a++ {
		n := vChoice("n"+vItoa(a), maxVals+1)
		for i := 0; i < n; i++ {
			out[a] = append(out[a], vStep{vkNext, vInt64("v" + vItoa(a) + "_" + vItoa(i))})
		}
		if vChoice("e"+vItoa(a), 2) == 0 {
			out[a] = append(out[a], vStep{kind: vkComplete})
		} else {
			out[a] = append(out[a], vStep{kind: vkError})
		}
	}
	return out
}

// attempt n of the scripted source (Complete without values once the script is exhausted)
func vAttempt(at [][]vStep, n int) []vStep {
	if n < len(at) {
		return at[n]
	}
	return []vStep{{kind: vkComplete}}
}

// vC15Async: the attempts of the scripted source run in a thread of their own (each attempt ends
// some time after its Subscribe call has returned) and the user callbacks yield.
var vC15Async bool

// vC15Src: in the asynchronous variants the scripted source is, by choice, an ordinary observable
// built with the library's constructor (its Subscribe returns a Subscriber, whose closed flag flips
// before the terminal callback has run) instead of the bare probe.
func vC15Src(p *vProbe) Observable[int64] {
	if vC15Async && vChoice("viaSubscriber", 2) == 1 {
		return vSubProbe(p)
	}
	return p
}

func vC15Run(name string, obs Observable[int64], p *vProbe, want []vEv, wantSubs int) {
	rec := &vRecorder{}
	if vC15Async {
		p.asyncPlay = true
		if vChoice("ownThread", 2) == 1 {
			// the attempt may end at any moment, also before the operator waits for it
			p.asyncOwn = true
			p.yieldTeardown = true
		} else {
			// the attempt ends while the operator is parked waiting for it; releasing takes time
			p.yieldTeardown = true
		}
		vGo(func() { obs.SubscribeWithContext(context.Background(), vObs(rec, vFlatInt)) })
		p.vDrive()
		vQuiesce()
	} else {
		obs.SubscribeWithContext(context.Background(), vObs(rec, vFlatInt))
	}
	vCheckGrammar(name, rec)
	vAssert(!p.overlap, name+": an attempt was started before the previous one was over and released")
	if p.asyncOwn {
		// with free-running attempts the operator may ask "is it over?" while the teardown is still
		// in progress on the attempt's thread, and be told yes (Wait returns as soon as the
		// subscription is marked done): a listed finding, kept apart from the driven case below
		vAssert(!p.unreleased, name+": an attempt was started before the teardown of the previous one had run [the attempt ended before the operator waited for it]")
	} else {
		vAssert(!p.unreleased, name+": an attempt was started before the teardown of the previous one had run")
	}
	vAssert(p.live == 0, name+": an attempt is still subscribed at the end")
	vAssert(p.subs == wantSubs, name+": the source was subscribed a different number of times than the definition prescribes")
	vSameEvents(name, rec.evs, want)
}

func vC15Retry(A int) {
	at := vAttempts(A, 2)
	p := &vProbe{name: "src", scripts: at}
	maxR := vInt64("maxRetries")
	vAssume(maxR >= 0)
	vAssume(maxR <= int64(A)+1)
	reset := vBool("resetOnSuccess")
	obs := RetryWithConfig[int64](RetryConfig{MaxRetries: uint64(maxR), ResetOnSuccess: reset})(vC15Src(p))
	var want []vEv
	retries := int64(0)
	subs := 0
	for n := 0; ; n++ {
		if n > A+3 {
			vAssume(false) // unlimited retries over an endless run of failures: outside the bound
		}
		subs++
		steps := vAttempt(at, n)
		failed := false
		for _, st := range steps {
			switch st.kind {
			case vkNext:
				if reset {
					retries = 0
				}
				want = append(want, vN(st.v))
			case vkError:
				failed = true
			}
		}
		if !failed {
			want = append(want, vC())
			break
		}
		retries++
		if maxR != 0 && retries > maxR {
			want = append(want, vE(vErrA))
			break
		}
	}
	vC15Run("Retry", obs, p, want, subs)
	vReach("end")
}

func vhC15_retry_A2() { vC15Retry(2) }
func vhC15_retry_A3() { vC15Retry(3) }

func vC15Repeat(A int) {
	at := vAttempts(A, 2)
	p := &vProbe{name: "src", scripts: at}
	count := vInt64("count")
	vAssume(count >= 0)
	vAssume(count <= int64(A)+1)
	obs := RepeatWith[int64](count)(vC15Src(p))
	var want []vEv
	subs := 0
	failed := false
	for n := int64(0); n < count && !failed; n++ {
		subs++
		for _, st := range vAttempt(at, int(n)) {
			switch st.kind {
			case vkNext:
				want = append(want, vN(st.v))
			case vkError:
				want = append(want, vE(vErrA))
				failed = true
			}
		}
	}
	if !failed {
		want = append(want, vC())
	}
	vC15Run("RepeatWith", obs, p, want, subs)
	vReach("end")
}

func vhC15_repeat_A2() { vC15Repeat(2) }
func vhC15_repeat_A3() { vC15Repeat(3) }

func vC15Loop(A int) {
	at := vAttempts(A, 2)
	p := &vProbe{name: "src", scripts: at}
	doWhile := vChoice("dowhile", 2) == 1
	cond := func(i int64) bool {
		if vC15Async && vThread() != 0 {
			vYield() // the condition is being evaluated: the looping goroutine may run meanwhile
		}
		if i > int64(A) {
			return false // keep the loop inside the bound
		}
		return vUFBool("cond", i)
	}
	var obs Observable[int64]
	name := "WhileI"
	if doWhile {
		name = "DoWhileI"
		obs = DoWhileI[int64](cond)(vC15Src(p))
	} else {
		obs = WhileI[int64](cond)(vC15Src(p))
	}
	var want []vEv
	subs := 0
	failed := false
	i := int64(0)
	for {
		if !doWhile || subs > 0 {
			if !cond(i) {
				break
			}
			i++
		}
		subs++
		for _, st := range vAttempt(at, subs-1) {
			switch st.kind {
			case vkNext:
				want = append(want, vN(st.v))
			case vkError:
				want = append(want, vE(vErrA))
				failed = true
			}
		}
		if failed {
			break
		}
	}
	if !failed {
		want = append(want, vC())
	}
	vC15Run(name, obs, p, want, subs)
	vReach("end")
}

func vhC15_loop_A2() { vC15Loop(2) }
func vhC15_loop_A3() { vC15Loop(3) }

// Catch, OnErrorResumeNextWith, Concat: a first source then a fallback / next source.
func vC15Chain(A int) {
	at := vAttempts(2, A)
	p0 := &vProbe{name: "a", scripts: [][]vStep{at[0]}}
	p1 := &vProbe{name: "b", scripts: [][]vStep{at[1]}}
	which := vChoice("op", 3)
	var obs Observable[int64]
	var want []vEv
	name := ""
	play := func(steps []vStep, terminal bool) int {
		end := vkComplete
		for _, st := range steps {
			switch st.kind {
			case vkNext:
				want = append(want, vN(st.v))
			case vkError:
				end = vkError
			}
		}
		if terminal {
			if end == vkError {
				want = append(want, vE(vErrA))
			} else {
				want = append(want, vC())
			}
		}
		return end
	}
	subs1 := 0
	switch which {
	case 0:
		name = "Catch"
		obs = Catch(func(err error) Observable[int64] { return p1 })(p0)
		if play(at[0], false) == vkError {
			subs1 = 1
			play(at[1], true)
		} else {
			want = append(want, vC())
		}
	case 1:
		name = "OnErrorResumeNextWith"
		obs = OnErrorResumeNextWith[int64](p1)(p0)
		play(at[0], false)
		subs1 = 1
		play(at[1], true)
	default:
		name = "ConcatWith"
		obs = ConcatWith[int64](p1)(p0)
		if play(at[0], false) == vkError {
			want = append(want, vE(vErrA))
		} else {
			subs1 = 1
			play(at[1], true)
		}
	}
	rec := &vRecorder{}
	obs.SubscribeWithContext(context.Background(), vObs(rec, vFlatInt))
	vCheckGrammar(name, rec)
	vAssert(p0.subs == 1, name+": the first source was not subscribed exactly once")
	vAssert(p1.subs == subs1, name+": the next source was subscribed although the definition does not call for it (or the reverse)")
	vAssert(p0.live == 0 && p1.live == 0, name+": a source is still subscribed at the end")
	vSameEvents(name, rec.evs, want)
	vReach("end")
}

func vhC15_chain_A2() { vC15Chain(2) }

// The same four harnesses with asynchronous attempts (C15: "strictly sequential attempts" also
// when an attempt ends on another goroutine than the one that subscribed it).
func vhC15_retryasync_A2()  { vC15Async = true; defer func() { vC15Async = false }(); vC15Retry(2) }
func vhC15_repeatasync_A2() { vC15Async = true; defer func() { vC15Async = false }(); vC15Repeat(2) }
func vhC15_loopasync_A2()   { vC15Async = true; defer func() { vC15Async = false }(); vC15Loop(2) }
