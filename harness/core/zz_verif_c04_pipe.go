package ro

import "context"

// C04 / C11 for the untyped, reflection-based helpers Pipe and PipeOp (executed through the
// engine's model of the part of package reflect they use): a chain built with them behaves as the
// same chain built with the typed PipeN, and an operator with per-observable state composed
// through PipeOp keeps that state per observable, not per subscription (Share: one upstream
// subscription for two subscribers).
func vC04Pipe(L int) {
	in := vLegalScript("s", L)
	n := vInt64("n")
	vAssume(n >= 1)
	vAssume(n <= int64(L)+1)
	m := Map(func(v int64) int64 { return vUFInt("f", v) })
	f := Filter(func(v int64) bool { return vUFBool("p", v) })
	t := Take[int64](n)
	p1 := &vProbe{name: "a", cold: true, script: in}
	p2 := &vProbe{name: "b", cold: true, script: in}
	var got Observable[int64]
	switch vChoice("form", 3) {
	case 0:
		got = Pipe[int64, int64](p1, m, f, t)
	case 1:
		got = PipeOp[int64, int64](m, f, t)(p1)
	default:
		got = PipeOp[int64, int64](PipeOp[int64, int64](m, f), t)(p1)
	}
	want := Pipe3[int64, int64, int64, int64](p2, m, f, t)
	rg, rw := &vRecorder{name: "g"}, &vRecorder{name: "w"}
	got.SubscribeWithContext(context.Background(), vObs(rg, vFlatInt))
	want.SubscribeWithContext(context.Background(), vObs(rw, vFlatInt))
	vCheckGrammar("Pipe", rg)
	vSameEvents("Pipe/PipeOp against the typed Pipe3", rg.evs, rw.evs)
	vAssert(p1.subs == p2.subs && p1.live == p2.live, "Pipe/PipeOp: the source is subscribed or released differently from the typed Pipe3")
	// a second subscription of the same observable
	rg2, rw2 := &vRecorder{name: "h"}, &vRecorder{name: "x"}
	got.SubscribeWithContext(context.Background(), vObs(rg2, vFlatInt))
	want.SubscribeWithContext(context.Background(), vObs(rw2, vFlatInt))
	vSameEvents("Pipe/PipeOp against the typed Pipe3 (second subscription)", rg2.evs, rw2.evs)
	vReach("end")
}

func vhC04_pipe_L2() { vC04Pipe(2) }
func vhC04_pipe_L3() { vC04Pipe(3) }

func vC11PipeShare() {
	p := &vProbe{name: "src"}
	var shared Observable[int64]
	if vChoice("form", 2) == 0 {
		shared = PipeOp[int64, int64](Share[int64]())(p)
	} else {
		shared = Pipe[int64, int64](p, Share[int64]())
	}
	ra, rb := &vRecorder{name: "a"}, &vRecorder{name: "b"}
	sa := shared.SubscribeWithContext(context.Background(), vObs(ra, vFlatInt))
	sb := shared.SubscribeWithContext(context.Background(), vObs(rb, vFlatInt))
	vAssert(p.subs == 1 && p.live == 1, "Share through Pipe/PipeOp: not exactly one live subscription to the source for two subscribers")
	v := vInt64("v")
	p.emit(vStep{vkNext, v})
	vAssert(ra.nexts() == 1 && rb.nexts() == 1, "Share through Pipe/PipeOp: a current subscriber did not receive the notification exactly once")
	sa.Unsubscribe()
	vAssert(p.live == 1, "Share through Pipe/PipeOp: the upstream subscription was released while a subscriber remains")
	sb.Unsubscribe()
	vAssert(p.live == 0 && p.maxTorn() == 1, "Share through Pipe/PipeOp: the upstream subscription was not released exactly once when the last subscriber left")
	vReach("end")
}

func vhC11_pipeshare_2() { vC11PipeShare() }
