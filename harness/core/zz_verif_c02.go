package ro

import "context"

// C02(a): an observable built with a safe / eventually-safe constructor (and a
// Serialize stage over an unsafe one), emitted into from 2..3 goroutines at
// once: the callbacks of the final observer never overlap.  The recorder yields
// inside every callback, so an unprotected second producer can be scheduled in.
func vC02Core(nthreads, per int) {
	mode := vChoice("mode", 3) // 0 safe, 1 eventually safe, 2 unsafe+Serialize
	var dest Observer[int64]
	subscribe := func(ctx context.Context, d Observer[int64]) Teardown {
		dest = d
		return nil
	}
	var obs Observable[int64]
	switch mode {
	case 0:
		obs = NewSafeObservableWithContext(subscribe)
	case 1:
		obs = NewEventuallySafeObservableWithContext(subscribe)
	default:
		obs = Serialize[int64]()(NewUnsafeObservableWithContext(subscribe))
	}
	rec := &vRecorder{yield: true, quiet: true}
	if vChoice("raw", 2) == 1 {
		// a hand-written observer without a closed flag of its own
		obs.SubscribeWithContext(context.Background(), &vRawObserver{rec})
	} else {
		obs.SubscribeWithContext(context.Background(), vObs(rec, vFlatInt))
	}
	termsSent := 0
	for t := 0; t < nthreads; t++ {
		t := t
		vGo(func() {
			for k := 0; k < per; k++ {
				switch vChoice("k"+vItoa(t)+"_"+vItoa(k), 3) {
				case 0:
					dest.NextWithContext(context.Background(), int64(t*10+k))
				case 1:
					termsSent++
					dest.ErrorWithContext(context.Background(), vErrA)
				default:
					termsSent++
					dest.CompleteWithContext(context.Background())
				}
			}
		})
	}
	vQuiesce()
	vAssert(!rec.overlap, "core: two callbacks of one observer ran at the same time")
	vCheckGrammar("core", rec)
	if termsSent > 0 {
		// values may be dropped under back-pressure in the eventually-safe mode; an error or a
		// completion never is (C07: it reaches the subscriber exactly once)
		vAssert(rec.terminals() == 1, "core: a terminal notification was emitted but the observer received none (error or completion lost)")
	}
	vReach("end")
}

func vhC02_core_2x2() { vC02Core(2, 2) }
func vhC02_core_3x1() { vC02Core(3, 1) }
func vhC02_core_3x2() { vC02Core(3, 2) }
