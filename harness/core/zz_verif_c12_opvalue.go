package ro

import "context"

// C12 (operator values): one operator value applied to two different cold
// sources, in both orders, before subscribing to either result; each resulting
// pipeline must behave exactly like a pipeline built from a fresh operator
// value.  Variadic arguments are passed as slices with spare capacity, the way
// a caller holding a pre-allocated list would.

type vOVCtx struct {
	n      int64
	a, b   int64
	extras []Observable[int64] // len 1, cap 3
	extraP *vProbe
}

type vOpVal struct {
	name string
	mk   func(c *vOVCtx) func(src Observable[int64]) vPipeline
}

func vOV[R any](op func(Observable[int64]) Observable[R], flat func(R) []int64) func(src Observable[int64]) vPipeline {
	return func(src Observable[int64]) vPipeline { return vPipe(op(src), flat) }
}

var vOpValues = []vOpVal{
	{"ConcatWith", func(c *vOVCtx) func(Observable[int64]) vPipeline { return vOV(ConcatWith(c.extras...), vFlatInt) }},
	{"MergeWith", func(c *vOVCtx) func(Observable[int64]) vPipeline { return vOV(MergeWith(c.extras...), vFlatInt) }},
	{"RaceWith", func(c *vOVCtx) func(Observable[int64]) vPipeline { return vOV(RaceWith(c.extras...), vFlatInt) }},
	{"OnErrorResumeNextWith", func(c *vOVCtx) func(Observable[int64]) vPipeline {
		return vOV(OnErrorResumeNextWith(c.extras...), vFlatInt)
	}},
	{"StartWith", func(c *vOVCtx) func(Observable[int64]) vPipeline {
		p := make([]int64, 2, 4)
		p[0], p[1] = c.a, c.b
		return vOV(StartWith(p...), vFlatInt)
	}},
	{"EndWith", func(c *vOVCtx) func(Observable[int64]) vPipeline {
		p := make([]int64, 2, 4)
		p[0], p[1] = c.a, c.b
		return vOV(EndWith(p...), vFlatInt)
	}},
	{"Take", func(c *vOVCtx) func(Observable[int64]) vPipeline { return vOV(Take[int64](c.n), vFlatInt) }},
	{"Skip", func(c *vOVCtx) func(Observable[int64]) vPipeline { return vOV(Skip[int64](c.n), vFlatInt) }},
	{"TakeLast", func(c *vOVCtx) func(Observable[int64]) vPipeline { return vOV(TakeLast[int64](int(c.n)), vFlatInt) }},
	{"SkipLast", func(c *vOVCtx) func(Observable[int64]) vPipeline { return vOV(SkipLast[int64](int(c.n)), vFlatInt) }},
	{"ElementAt", func(c *vOVCtx) func(Observable[int64]) vPipeline { return vOV(ElementAt[int64](int(c.n)), vFlatInt) }},
	{"BufferWithCount", func(c *vOVCtx) func(Observable[int64]) vPipeline {
		return vOV(BufferWithCount[int64](int(c.n)), vFlatSlice)
	}},
	{"Distinct", func(c *vOVCtx) func(Observable[int64]) vPipeline { return vOV(Distinct[int64](), vFlatInt) }},
	{"DistinctBy", func(c *vOVCtx) func(Observable[int64]) vPipeline {
		return vOV(DistinctBy(func(v int64) int64 { return vUFInt("k", v) }), vFlatInt)
	}},
	{"MapI", func(c *vOVCtx) func(Observable[int64]) vPipeline {
		return vOV(MapI(func(v int64, i int64) int64 { return vUFInt("f", v, i) }), vFlatInt)
	}},
	{"FilterI", func(c *vOVCtx) func(Observable[int64]) vPipeline {
		return vOV(FilterI(func(v int64, i int64) bool { return vUFBool("p", v, i) }), vFlatInt)
	}},
	{"Scan", func(c *vOVCtx) func(Observable[int64]) vPipeline {
		return vOV(Scan(func(acc, v int64) int64 { return vUFInt("g", acc, v) }, c.a), vFlatInt)
	}},
	{"Reduce", func(c *vOVCtx) func(Observable[int64]) vPipeline {
		return vOV(Reduce(func(acc, v int64) int64 { return vUFInt("g", acc, v) }, c.a), vFlatInt)
	}},
	{"Count", func(c *vOVCtx) func(Observable[int64]) vPipeline { return vOV(Count[int64](), vFlatInt) }},
	{"Sum", func(c *vOVCtx) func(Observable[int64]) vPipeline { return vOV(Sum[int64](), vFlatInt) }},
	{"Min", func(c *vOVCtx) func(Observable[int64]) vPipeline { return vOV(Min[int64](), vFlatInt) }},
	{"Max", func(c *vOVCtx) func(Observable[int64]) vPipeline { return vOV(Max[int64](), vFlatInt) }},
	{"Pairwise", func(c *vOVCtx) func(Observable[int64]) vPipeline { return vOV(Pairwise[int64](), vFlatSlice) }},
	{"ToSlice", func(c *vOVCtx) func(Observable[int64]) vPipeline { return vOV(ToSlice[int64](), vFlatSlice) }},
	{"TakeWhileI", func(c *vOVCtx) func(Observable[int64]) vPipeline {
		return vOV(TakeWhileI(func(v int64, i int64) bool { return vUFBool("p", v, i) }), vFlatInt)
	}},
	{"SkipWhileI", func(c *vOVCtx) func(Observable[int64]) vPipeline {
		return vOV(SkipWhileI(func(v int64, i int64) bool { return vUFBool("p", v, i) }), vFlatInt)
	}},
	{"MergeMapI", func(c *vOVCtx) func(Observable[int64]) vPipeline {
		return vOV(MergeMapI(func(v int64, i int64) Observable[int64] { return Just(vUFInt("f", v, i)) }), vFlatInt)
	}},
	{"FlatMapI", func(c *vOVCtx) func(Observable[int64]) vPipeline {
		return vOV(FlatMapI(func(v int64, i int64) Observable[int64] { return Just(vUFInt("f", v, i)) }), vFlatInt)
	}},
	{"DefaultIfEmpty", func(c *vOVCtx) func(Observable[int64]) vPipeline { return vOV(DefaultIfEmpty(c.a), vFlatInt) }},
	{"RetryWithConfig", func(c *vOVCtx) func(Observable[int64]) vPipeline {
		return vOV(RetryWithConfig[int64](RetryConfig{MaxRetries: 1}), vFlatInt)
	}},
	{"RepeatWith", func(c *vOVCtx) func(Observable[int64]) vPipeline { return vOV(RepeatWith[int64](2), vFlatInt) }},
}

func vOVCtxNew(tag string, n, a, b int64, extraScript []vStep) *vOVCtx {
	c := &vOVCtx{n: n, a: a, b: b}
	c.extraP = &vProbe{name: "x" + tag, cold: true, script: extraScript}
	c.extras = make([]Observable[int64], 1, 3)
	c.extras[0] = c.extraP
	return c
}

func vC12OpValue(L int) {
	ov := &vOpValues[vChoice("op", len(vOpValues))]
	sA := vLegalScript("a", L)
	sB := vLegalScript("b", 1)
	sX := vLegalScript("x", 1)
	n := vInt64("n")
	vAssume(n >= 1)
	vAssume(n <= int64(L)+1)
	a, b := vInt64("pa"), vInt64("pb")
	order := vChoice("order", 2)

	// shared operator value applied to both sources
	shared := ov.mk(vOVCtxNew("s", n, a, b, sX))
	pA := &vProbe{name: "A", cold: true, script: sA}
	pB := &vProbe{name: "B", cold: true, script: sB}
	var pipeA, pipeB vPipeline
	if order == 0 {
		pipeA = shared(pA)
		pipeB = shared(pB)
	} else {
		pipeB = shared(pB)
		pipeA = shared(pA)
	}
	vAssert(pA.subs == 0 && pB.subs == 0, ov.name+": applying the operator subscribed a source")
	// fresh operator values
	fA := ov.mk(vOVCtxNew("fa", n, a, b, sX))(&vProbe{name: "A2", cold: true, script: sA})
	fB := ov.mk(vOVCtxNew("fb", n, a, b, sX))(&vProbe{name: "B2", cold: true, script: sB})
	if vEnd(sA) == -1 || vEnd(sB) == -1 || vEnd(sX) == -1 {
		vAssume(false) // cold sources that never end would block the operators that wait inside subscribe
	}
	run := func(p vPipeline, name string) *vRecorder {
		rec := &vRecorder{name: name}
		p(context.Background(), rec)
		return rec
	}
	rA := run(pipeA, "ra")
	rB := run(pipeB, "rb")
	wA := run(fA, "wa")
	wB := run(fB, "wb")
	vSameEvents(ov.name+" (shared operator value, first source)", rA.evs, wA.evs)
	vSameEvents(ov.name+" (shared operator value, second source)", rB.evs, wB.evs)
	vReach("end")
}

func vhC12_opvalue_L2() { vC12OpValue(2) }
func vhC12_opvalue_L3() { vC12OpValue(3) }
