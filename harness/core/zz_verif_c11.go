package ro

import "context"

// C11: Share / ShareWithConfig over a hot probe source, against a reference
// model of the reference count and the three reset flags (publish connector).
type vShareModel struct {
	resetErr, resetComp, resetZero bool
	connected                      bool // a subject exists and is bound to an upstream execution
	upLive                         bool // the upstream subscription is live
	term                           int  // terminal kept by a subject that was not reset (0 none)
	upSubs                         int
	cur                            int // number of the current upstream execution
	subs                           []*vModelSub
	conn                           []int // per subscriber: the execution it joined
	armed                          int   // the next upstream execution terminates synchronously inside its subscribe
	connBy                         []int // per upstream execution: the subscriber whose subscription started it
}

func (m *vShareModel) active() int {
	n := 0
	for _, s := range m.subs {
		if s.active {
			n++
		}
	}
	return n
}

func (m *vShareModel) resets(kind int) bool {
	return (kind == vkError && m.resetErr) || (kind == vkComplete && m.resetComp)
}

// reentrantNoReset: a terminal that does not reset would be delivered to a subscriber that
// subscribes again from inside the callback.  That subscription goes to the very subject that is
// delivering (subjects deliver under their lock), which is re-entrant use of a subject: outside
// C11 and C10, kept out of the explored sequences (DESIGN §10).
func (m *vShareModel) reentrantNoReset(kind int) bool {
	if m.resets(kind) {
		return false
	}
	for i, s := range m.subs {
		if s.active && s.resub && m.conn[i] == m.cur {
			return true
		}
	}
	return false
}

func (m *vShareModel) subscribe(resub bool) {
	s := &vModelSub{resub: resub}
	m.subs = append(m.subs, s)
	m.conn = append(m.conn, m.cur)
	if m.term != 0 {
		if m.term == vkComplete {
			s.want = append(s.want, vC())
		} else {
			s.want = append(s.want, vE(vErrA))
		}
		if s.resub {
			s.resub = false
			m.subscribe(false)
		}
		return
	}
	s.active = true
	if !m.connected {
		m.connected = true
		m.upLive = true
		m.upSubs++
		m.cur++
		m.conn[len(m.conn)-1] = m.cur
		m.connBy = append(m.connBy, len(m.subs)-1)
		if m.armed != 0 {
			k := m.armed
			m.armed = 0
			m.terminate(k)
		}
	}
}

func (m *vShareModel) unsubscribe(i int) {
	if !m.subs[i].active {
		return
	}
	m.subs[i].active = false
	if m.active() == 0 && m.resetZero && m.term == 0 {
		m.connected = false
		m.upLive = false
	}
}

func (m *vShareModel) next(v int64) {
	for i, s := range m.subs {
		if s.active && m.conn[i] == m.cur {
			s.want = append(s.want, vN(v))
		}
	}
}

func (m *vShareModel) terminate(kind int) {
	// the reset (or the decision to keep the terminal) comes first: a subscriber that subscribes
	// again from inside its terminal callback already meets the new state
	conn := m.cur
	m.upLive = false
	if m.resets(kind) {
		m.connected = false
	} else {
		m.term = kind
	}
	n := len(m.subs)
	for i := 0; i < n; i++ {
		s := m.subs[i]
		if s.active && m.conn[i] == conn {
			if kind == vkComplete {
				s.want = append(s.want, vC())
			} else {
				s.want = append(s.want, vE(vErrA))
			}
			s.active = false
			if s.resub {
				s.resub = false
				m.subscribe(false)
			}
		}
	}
}

func vC11Share(K int) {
	m := &vShareModel{}
	p := &vProbe{name: "src"}
	var shared Observable[int64]
	if vChoice("cfg", 2) == 0 {
		m.resetErr, m.resetComp, m.resetZero = true, true, true
		shared = Share[int64]()(p)
	} else {
		m.resetErr, m.resetComp, m.resetZero = vChoice("rE", 2) == 1, vChoice("rC", 2) == 1, vChoice("rZ", 2) == 1
		shared = ShareWithConfig(ShareConfig[int64]{Connector: func() Subject[int64] { return NewPublishSubject[int64]() },
			ResetOnError: m.resetErr, ResetOnComplete: m.resetComp, ResetOnRefCountZero: m.resetZero})(p)
	}
	var recs []*vRecorder
	var subs []Subscription
	armedOnce, resubOnce := false, false
	// every subscription carries its own marker in its context: the upstream execution must be
	// subscribed with the context of the subscriber that started it (C09)
	subscribe := func() {
		rec := &vRecorder{name: "s" + vItoa(len(recs))}
		ctx := context.WithValue(context.Background(), vKeySub, int64(100+len(recs)))
		recs = append(recs, rec)
		subs = append(subs, nil)
		k := len(subs) - 1
		s := shared.SubscribeWithContext(ctx, vObs(rec, vFlatInt))
		subs[k] = s
	}
	for step := 0; step < K; step++ {
		switch vChoice("op"+vItoa(step), 7) {
		case 0: // subscribe
			if len(recs) >= 3 {
				vAssume(false)
			}
			subscribe()
			m.subscribe(false)
		case 5: // the next upstream execution terminates synchronously, inside its subscribe call
			if armedOnce {
				vAssume(false)
			}
			armedOnce = true
			m.armed = vkComplete
			if vChoice("armk", 2) == 1 {
				m.armed = vkError
			}
			p.syncTerm = m.armed
			continue
		case 6: // a subscriber that subscribes again from inside its terminal callback
			if resubOnce || len(recs) >= 2 {
				vAssume(false)
			}
			resubOnce = true
			rec := &vRecorder{name: "s" + vItoa(len(recs))}
			rec.hook = func(r *vRecorder, kind int, idx int) {
				if kind != vkNext {
					subscribe()
				}
			}
			if m.term != 0 || (m.armed != 0 && !m.connected && !m.resets(m.armed)) {
				vAssume(false) // re-entrant use of a subject (see reentrantNoReset)
			}
			ctx := context.WithValue(context.Background(), vKeySub, int64(100+len(recs)))
			recs = append(recs, rec)
			subs = append(subs, nil)
			k := len(subs) - 1
			s := shared.SubscribeWithContext(ctx, vObs(rec, vFlatInt))
			subs[k] = s
			m.subscribe(true)
		case 1: // unsubscribe
			if len(subs) == 0 {
				vAssume(false)
			}
			i := vChoice("who"+vItoa(step), len(subs))
			subs[i].Unsubscribe()
			m.unsubscribe(i)
		case 2: // source next
			if p.live == 0 {
				vAssume(false)
			}
			v := vInt64("v" + vItoa(step))
			p.emit(vStep{vkNext, v})
			m.next(v)
		case 3:
			if p.live == 0 {
				vAssume(false)
			}
			if m.reentrantNoReset(vkError) {
				vAssume(false)
			}
			p.emit(vStep{kind: vkError})
			m.terminate(vkError)
		default:
			if p.live == 0 {
				vAssume(false)
			}
			if m.reentrantNoReset(vkComplete) {
				vAssume(false)
			}
			p.emit(vStep{kind: vkComplete})
			m.terminate(vkComplete)
		}
		vAssert(p.live <= 1, "Share: more than one live subscription to the source")
		vAssert((p.live == 1) == m.upLive, "Share: the upstream subscription does not follow the reference count")
		vAssert(p.subs == m.upSubs, "Share: the source was (re)subscribed a different number of times than the reset options prescribe")
	}
	for e, by := range m.connBy {
		if e < len(p.ctxs) {
			got, _ := p.ctxs[e].Value(vKeySub).(int64)
			vAssert(got == int64(100+by), "Share: the source was subscribed with a context other than that of the subscriber that started the execution")
		}
	}
	for i, rec := range recs {
		vCheckGrammar("Share", rec)
		vSameEvents("Share (subscriber "+vItoa(i)+")", rec.evs, m.subs[i].want)
	}
	vReach("end")
}

func vhC11_share_K4() { vC11Share(4) }
func vhC11_share_K5() { vC11Share(5) }

// C11: connectable observables.  Nothing flows before Connect; Connect while
// connected does not subscribe again; disconnecting stops delivery.
func vC11Conn(K int) {
	p := &vProbe{name: "src"}
	conn := Connectable[int64](p)
	var recs []*vRecorder
	var want [][]vEv
	var active []bool
	var subs []Subscription
	var csub Subscription
	connected := false
	upSubs := 0
	for step := 0; step < K; step++ {
		switch vChoice("op"+vItoa(step), 5) {
		case 0: // subscribe
			if len(recs) >= 2 {
				vAssume(false)
			}
			rec := &vRecorder{name: "s" + vItoa(len(recs))}
			recs = append(recs, rec)
			want = append(want, nil)
			active = append(active, true)
			subs = append(subs, conn.SubscribeWithContext(context.Background(), vObs(rec, vFlatInt)))
		case 1: // unsubscribe
			if len(subs) == 0 {
				vAssume(false)
			}
			i := vChoice("who"+vItoa(step), len(subs))
			subs[i].Unsubscribe()
			active[i] = false
		case 2: // connect
			csub = conn.Connect()
			if !connected {
				connected = true
				upSubs++
			}
		case 3: // disconnect
			if csub == nil {
				vAssume(false)
			}
			csub.Unsubscribe()
			if connected {
				connected = false
				// ResetOnDisconnect (default): subscribers of the old subject no longer receive anything
				for i := range active {
					active[i] = false
				}
			}
		default: // source next
			if p.live == 0 {
				vAssume(false)
			}
			v := vInt64("v" + vItoa(step))
			p.emit(vStep{vkNext, v})
			for i := range active {
				if active[i] {
					want[i] = append(want[i], vN(v))
				}
			}
		}
		vAssert(p.live <= 1, "Connectable: more than one live subscription to the source")
		vAssert((p.live == 1) == connected, "Connectable: the source subscription does not follow Connect/disconnect")
		vAssert(p.subs == upSubs, "Connectable: Connect subscribed the source a wrong number of times")
	}
	for i, rec := range recs {
		vCheckGrammar("Connectable", rec)
		vSameEvents("Connectable (subscriber "+vItoa(i)+")", rec.evs, want[i])
	}
	vReach("end")
}

func vhC11_conn_K4() { vC11Conn(4) }
func vhC11_conn_K5() { vC11Conn(5) }

// C11 (concurrent part): two threads use one shared / connectable observable at
// the same time; the source yields inside its subscribe function.  At most one
// upstream subscription is ever live, Connect while connecting/connected does
// not subscribe again, the reference count returns to zero.
func vC11Conc() {
	which := vChoice("kind", 2)
	p := &vProbe{name: "src", yieldSub: true}
	if which == 0 {
		conn := Connectable[int64](p)
		rec := &vRecorder{quiet: true}
		conn.SubscribeWithContext(context.Background(), vObs(rec, vFlatInt))
		for t := 0; t < 2; t++ {
			vGo(func() { conn.Connect() })
		}
		vQuiesce()
		vAssert(p.maxLive <= 1, "Connectable: more than one live subscription to the source under concurrent Connect")
		vAssert(p.subs == 1, "Connectable: concurrent Connect calls subscribed the source more than once")
		if p.live > 0 {
			p.emit(vStep{vkNext, 7})
		}
		vAssert(rec.nexts() <= 1, "Connectable: a value was delivered more than once")
	} else {
		shared := Share[int64]()(p)
		recs := []*vRecorder{{quiet: true}, {quiet: true}}
		unsub := vChoice("unsub", 2) == 1
		for t := 0; t < 2; t++ {
			t := t
			vGo(func() {
				sub := shared.SubscribeWithContext(context.Background(), vObs(recs[t], vFlatInt))
				if unsub {
					sub.Unsubscribe()
				}
			})
		}
		vQuiesce()
		vAssert(p.maxLive <= 1, "Share: more than one live subscription to the source under concurrent subscribers")
		if unsub {
			vAssert(p.live == 0, "Share: the upstream subscription outlived the last subscriber")
		} else {
			vAssert(p.live == 1, "Share: no live upstream subscription although subscribers are attached")
			p.emit(vStep{vkNext, 7})
			for _, r := range recs {
				vAssert(r.nexts() == 1, "Share: a current subscriber did not receive the notification exactly once")
			}
		}
	}
	vReach("end")
}

func vhC11_conc_2() { vC11Conc() }

// C11 (replay connector): ShareReplay(n) / ShareReplayWithConfig(n, {ResetOnRefCountZero}) —
// "the next subscriber gets a fresh or a replayed execution exactly as the reset options and the
// connector say".  One upstream subscription; a late subscriber of a running execution first gets
// the last n values; when the last subscriber leaves, the upstream is released iff the option says
// so, and the next subscriber then starts a fresh execution (nothing replayed) — otherwise it joins
// the execution that is still running and gets the replay.
func vC11ShareReplay() {
	n := int64(vChoice("n", 3)) // replay size 0..2
	p := &vProbe{name: "src"}
	resetZero := false
	var shared Observable[int64]
	if vChoice("cfg", 2) == 0 {
		shared = ShareReplay[int64](int(n))(p)
	} else {
		resetZero = vChoice("rZ", 2) == 1
		shared = ShareReplayWithConfig[int64](int(n), ShareReplayConfig{ResetOnRefCountZero: resetZero})(p)
	}
	ra := &vRecorder{name: "a"}
	sa := shared.SubscribeWithContext(context.Background(), vObs(ra, vFlatInt))
	vAssert(p.subs == 1 && p.live == 1, "ShareReplay: the first subscriber did not start exactly one upstream execution")
	vals := []int64{vInt64("v0"), vInt64("v1"), vInt64("v2")}
	for _, v := range vals {
		p.emit(vStep{vkNext, v})
	}
	rb := &vRecorder{name: "b"}
	sb := shared.SubscribeWithContext(context.Background(), vObs(rb, vFlatInt))
	vAssert(p.subs == 1, "ShareReplay: a later subscriber restarted the running execution")
	vAssert(int64(rb.nexts()) == n, "ShareReplay: a later subscriber of a running execution did not get exactly the last n values")
	for i := int64(0); i < n && int(i) < len(rb.evs); i++ {
		vAssert(rb.evs[i].vals[0] == vals[int64(len(vals))-n+i], "ShareReplay: the replayed values are not the last n in order")
	}
	sa.Unsubscribe()
	vAssert(p.live == 1, "ShareReplay: the upstream subscription was released while a subscriber remains")
	sb.Unsubscribe()
	if resetZero {
		vAssert(p.live == 0, "ShareReplay: ResetOnRefCountZero is set but the upstream subscription outlived the last subscriber")
	} else {
		vAssert(p.live == 1, "ShareReplay: the upstream subscription was released although ResetOnRefCountZero is not set")
	}
	rc := &vRecorder{name: "c"}
	sc := shared.SubscribeWithContext(context.Background(), vObs(rc, vFlatInt))
	if resetZero {
		vAssert(p.subs == 2 && p.live == 1, "ShareReplay: after a reset at reference count zero the next subscriber did not start a fresh execution")
		vAssert(rc.nexts() == 0, "ShareReplay: a fresh execution replayed values of the previous one")
	} else {
		vAssert(p.subs == 1, "ShareReplay: the next subscriber restarted an execution that was still running")
		vAssert(int64(rc.nexts()) == n, "ShareReplay: the next subscriber did not get the replay of the running execution")
	}
	sc.Unsubscribe()
	vReach("end")
}

func vhC11_sharereplay_3() { vC11ShareReplay() }
