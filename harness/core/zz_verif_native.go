//go:build verif

package ro

// Native implementation of the harness API, used to (a) validate the symbolic
// engine's predictions on solver-generated inputs and (b) replay
// counterexamples against the natively compiled library.  Inputs, choices and
// uninterpreted-function tables come from the model the solver produced.

import (
	"encoding/json"
	"fmt"
	"os"
	"runtime"
	"sync"
	"time"

	vtime "github.com/samber/ro/internal/verifrt/vtime"
)

type vUFRow struct {
	Args []int64 `json:"args"`
	Res  int64   `json:"res"`
}

type vSwitch struct {
	From   int    `json:"from"`
	H      int    `json:"h"`
	Reason string `json:"reason"`
	To     int    `json:"to"`
}

type vCase struct {
	Harness  string              `json:"harness"`
	Inputs   map[string]int64    `json:"inputs"`
	UF       map[string][]vUFRow `json:"uf"`
	Switches []vSwitch           `json:"switches"`
	Advances []int64             `json:"advances"`
	ID       string              `json:"id"`
}

type vTraceEv struct {
	Tag    string  `json:"tag"`
	Thread int     `json:"thread"`
	Vals   []int64 `json:"vals"`
}

type vOutcome struct {
	ID      string     `json:"id"`
	Harness string     `json:"harness"`
	Outcome string     `json:"outcome"` // ok, assert, assume-false, panic, hang
	Msg     string     `json:"msg"`
	Trace   []vTraceEv `json:"trace"`
	Reached []string   `json:"reached"`
}

type vAssertFail struct{ msg string }
type vAssumeFail struct{}

type vState struct {
	mu        sync.Mutex
	c         *vCase
	nameCount map[string]int
	trace     []vTraceEv
	reached   []string
	failed    *vAssertFail
	// threads
	ctl *vCtl
}

var vS *vState

func vFresh(name string) string {
	n := vS.nameCount[name]
	vS.nameCount[name] = n + 1
	if n == 0 {
		return name
	}
	return fmt.Sprintf("%s#%d", name, n)
}

func vInt64(name string) int64 {
	vS.mu.Lock()
	defer vS.mu.Unlock()
	return vS.c.Inputs[vFresh(name)]
}
func vInt(name string) int { return int(vInt64(name)) }
func vBool(name string) bool {
	return vInt64(name) != 0
}
func vChoice(name string, n int) int {
	v := int(vInt64(name))
	if v < 0 || v >= n {
		v = 0
	}
	return v
}

func vUFLookup(name string, args []int64) int64 {
	vS.mu.Lock()
	defer vS.mu.Unlock()
rows:
	for _, r := range vS.c.UF[name] {
		if len(r.Args) != len(args) {
			continue
		}
		for i := range args {
			if r.Args[i] != args[i] {
				continue rows
			}
		}
		return r.Res
	}
	return 0
}
func vUFInt(name string, args ...int64) int64 { return vUFLookup(name, args) }
func vUFBool(name string, args ...int64) bool { return vUFLookup(name, args) != 0 }

func vAssume(c bool) {
	if !c {
		panic(vAssumeFail{})
	}
}

func vAssert(c bool, msg string) {
	if !c {
		vS.mu.Lock()
		if vS.failed == nil {
			vS.failed = &vAssertFail{msg}
		}
		vS.mu.Unlock()
		panic(vAssertFail{msg})
	}
}

func vReach(label string) {
	vS.mu.Lock()
	vS.reached = append(vS.reached, label)
	vS.mu.Unlock()
}

func vTrace(tag string, vals ...int64) {
	tid := vThread()
	vS.mu.Lock()
	if vals == nil {
		vals = []int64{}
	}
	vS.trace = append(vS.trace, vTraceEv{Tag: tag, Thread: tid, Vals: append([]int64{}, vals...)})
	vS.mu.Unlock()
}

func vSymbolic() bool { return false }

func vAnd(a, b bool) bool { return a && b }
func vIte(c bool, a, b int64) int64 {
	if c {
		return a
	}
	return b
}

// ---------------------------------------------------------------------------
// Cooperative controller for harness threads: exactly one controlled goroutine
// holds the baton; hand-overs follow the switch list recorded by the engine.

type vThr struct {
	id     int
	resume chan struct{}
	h      int // harness-level points passed
	done   bool
}

type vCtl struct {
	mu      sync.Mutex
	thr     []*vThr
	byG     map[uint64]*vThr
	cur     int
	sw      []vSwitch
	pos     int
	free    bool // no schedule recorded: run freely
	lastAct time.Time
}

func vGoID() uint64 {
	var buf [64]byte
	n := runtime.Stack(buf[:], false)
	// "goroutine 123 ["
	var id uint64
	for _, c := range buf[10:n] {
		if c < '0' || c > '9' {
			break
		}
		id = id*10 + uint64(c-'0')
	}
	return id
}

func (c *vCtl) me() *vThr {
	c.mu.Lock()
	defer c.mu.Unlock()
	return c.byG[vGoID()]
}

func vThread() int {
	if vS == nil || vS.ctl == nil {
		return 0
	}
	if t := vS.ctl.me(); t != nil {
		return t.id
	}
	return -1
}

// head returns the next recorded switch concerning harness threads.
func (c *vCtl) head() *vSwitch {
	for c.pos < len(c.sw) {
		s := &c.sw[c.pos]
		if s.From < len(c.thr)+1 {
			return s
		}
		c.pos++
	}
	return nil
}

// point is a harness-level scheduling point of thread t.
func (c *vCtl) point(t *vThr, reason string) {
	c.mu.Lock()
	t.h++
	c.lastAct = time.Now()
	s := c.head()
	if s == nil || s.From != t.id || (s.Reason != reason && !(reason == "yield" && s.Reason == "preempt")) || s.H != t.h {
		c.mu.Unlock()
		return
	}
	c.pos++
	to := s.To
	c.mu.Unlock()
	c.handover(t, to, true)
}

// watchdog: a controlled goroutine that holds the baton but is blocked inside a
// real (unshimmed) operation cannot report it; when the recorded schedule says
// that the baton holder blocks next and nothing has moved for a while, the
// hand-over is performed on its behalf.
func (c *vCtl) watchdog(stop chan struct{}) {
	for {
		select {
		case <-stop:
			return
		case <-time.After(2 * time.Millisecond):
		}
		c.mu.Lock()
		s := c.head()
		if s != nil && s.Reason == "block" && s.From == c.cur && time.Since(c.lastAct) > 25*time.Millisecond {
			c.pos++
			to := s.To
			c.cur = to
			c.lastAct = time.Now()
			var target *vThr
			if to >= 0 && to < len(c.thr) {
				target = c.thr[to]
			}
			c.mu.Unlock()
			if target != nil && !target.done {
				select {
				case target.resume <- struct{}{}:
				default:
				}
			}
			continue
		}
		c.mu.Unlock()
	}
}

func (c *vCtl) handover(from *vThr, to int, wait bool) {
	if from != nil {
		// a token received while this goroutine was running anyway is stale
		select {
		case <-from.resume:
		default:
		}
	}
	c.mu.Lock()
	var target *vThr
	if to >= 0 && to < len(c.thr) {
		target = c.thr[to]
	}
	c.cur = to
	c.lastAct = time.Now()
	c.mu.Unlock()
	if target != nil && !target.done {
		select {
		case target.resume <- struct{}{}:
		default:
		}
	}
	if wait && from != nil {
		select {
		case <-from.resume:
		case <-time.After(3 * time.Second):
			// nobody gave the baton back: continue (the run is then diverging or hanging)
		}
	}
}

func vGo(f func()) {
	c := vS.ctl
	parent := c.me()
	c.mu.Lock()
	t := &vThr{id: len(c.thr), resume: make(chan struct{}, 1)}
	c.thr = append(c.thr, t)
	c.mu.Unlock()
	started := make(chan struct{})
	go func() {
		c.mu.Lock()
		c.byG[vGoID()] = t
		c.mu.Unlock()
		close(started)
		if !c.free {
			select {
			case <-t.resume:
			case <-time.After(3 * time.Second):
			}
		}
		defer func() {
			p := recover()
			c.mu.Lock()
			t.done = true
			s := c.head()
			var to = -1
			if s != nil && s.From == t.id && s.Reason == "end" {
				c.pos++
				to = s.To
			}
			c.mu.Unlock()
			if p != nil {
				if _, ok := p.(vAssertFail); !ok {
					if _, ok := p.(vAssumeFail); !ok {
						vS.mu.Lock()
						if vS.failed == nil {
							vS.failed = &vAssertFail{fmt.Sprintf("PANIC in thread %d: %v", t.id, p)}
						}
						vS.mu.Unlock()
					}
				}
			}
			if to >= 0 {
				c.handover(nil, to, false)
			}
		}()
		f()
	}()
	<-started
	if parent != nil && !c.free {
		c.point(parent, "go")
	}
}

func vYield() {
	c := vS.ctl
	if c.free {
		runtime.Gosched()
		return
	}
	if t := c.me(); t != nil {
		c.point(t, "yield")
	}
}

// vQuiesce waits until the other goroutines have stopped making progress.
func vQuiesce() {
	c := vS.ctl
	t := c.me()
	if !c.free && t != nil {
		c.mu.Lock()
		t.h++
		s := c.head()
		if s != nil && s.From == t.id && s.Reason == "quiesce" && s.H == t.h {
			c.pos++
			to := s.To
			c.mu.Unlock()
			c.handover(t, to, true)
		} else {
			c.mu.Unlock()
		}
	}
	// let uncontrolled (library) goroutines settle
	for i := 0; i < 20; i++ {
		runtime.Gosched()
		time.Sleep(500 * time.Microsecond)
	}
}

func vLive() (int, int) { return 0, 0 }

// The logical clock of the engine corresponds natively to the virtual clock of the
// time shim (only effective when the library was compiled against the shim).
func vNow() int64         { return vtime.NowNS() }
func vAdvance(d int64)    { vtime.Advance(d) }
func vPendingTimers() int { return vtime.Pending() }

// vRunCase runs one harness with the given model and returns what happened.
func vRunCase(c *vCase, h func()) (out vOutcome) {
	vS = &vState{c: c, nameCount: map[string]int{}}
	ctl := &vCtl{byG: map[uint64]*vThr{}, sw: c.Switches, free: len(c.Switches) == 0}
	vS.ctl = ctl
	stopWD := make(chan struct{})
	defer close(stopWD)
	if !ctl.free {
		go ctl.watchdog(stopWD)
	}
	vtime.ResetClock()
	if os.Getenv("VERIF_TIMESHIM") == "1" {
		// "time passes when nothing can run": fire the earliest timer when the replay is idle
		go func() {
			for {
				select {
				case <-stopWD:
					return
				case <-time.After(5 * time.Millisecond):
					vtime.IdleAdvance(60 * time.Millisecond)
				}
			}
		}()
	}
	out.ID = c.ID
	out.Harness = c.Harness
	done := make(chan struct{})
	var pan interface{}
	go func() {
		t0 := &vThr{id: 0, resume: make(chan struct{}, 1)}
		ctl.mu.Lock()
		ctl.thr = append(ctl.thr, t0)
		ctl.byG[vGoID()] = t0
		ctl.mu.Unlock()
		defer close(done)
		defer func() { pan = recover() }()
		h()
	}()
	select {
	case <-done:
	case <-time.After(8 * time.Second):
		out.Outcome = "hang"
		out.Msg = "harness did not finish within 8s"
		vS.mu.Lock()
		out.Trace = append([]vTraceEv{}, vS.trace...)
		out.Reached = append([]string{}, vS.reached...)
		vS.mu.Unlock()
		return
	}
	vS.mu.Lock()
	defer vS.mu.Unlock()
	out.Trace = vS.trace
	out.Reached = vS.reached
	switch p := pan.(type) {
	case nil:
		if vS.failed != nil {
			out.Outcome = "assert"
			out.Msg = vS.failed.msg
		} else {
			out.Outcome = "ok"
		}
	case vAssertFail:
		out.Outcome = "assert"
		out.Msg = p.msg
	case vAssumeFail:
		out.Outcome = "assume-false"
	default:
		out.Outcome = "panic"
		out.Msg = fmt.Sprint(p)
	}
	return
}

// vReplayMain is called from the generated test: it reads the cases file named
// by VERIF_CASES, runs each case and writes one JSON line per case to VERIF_OUT.
func vReplayMain(reg map[string]func()) error {
	b, err := os.ReadFile(os.Getenv("VERIF_CASES"))
	if err != nil {
		return err
	}
	var cases []*vCase
	if err := json.Unmarshal(b, &cases); err != nil {
		return err
	}
	f, err := os.Create(os.Getenv("VERIF_OUT"))
	if err != nil {
		return err
	}
	defer f.Close()
	enc := json.NewEncoder(f)
	for _, c := range cases {
		h, ok := reg[c.Harness]
		if !ok {
			enc.Encode(vOutcome{ID: c.ID, Harness: c.Harness, Outcome: "missing"})
			continue
		}
		out := vRunCase(c, h)
		enc.Encode(out)
		if out.Outcome == "hang" {
			// leaked goroutines may disturb later cases; stop here, the driver re-runs the rest
			break
		}
	}
	return nil
}
