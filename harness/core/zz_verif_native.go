//go:build verif

package ro

// Native implementation of the harness API, used to (a) validate the symbolic
// engine's predictions on solver-generated inputs and (b) replay
// counterexamples against the natively compiled library.  Inputs, choices and
// uninterpreted-function tables come from the model the solver produced.

import (
	"encoding/json"
	"fmt"
	"os"
	"runtime"
	"sync"
	"time"

	"github.com/samber/ro/internal/verifrt/ctl"
	vtime "github.com/samber/ro/internal/verifrt/vtime"
)

type vUFRow struct {
	Args []int64 `json:"args"`
	Res  int64   `json:"res"`
}

type vCase struct {
	Harness  string              `json:"harness"`
	Inputs   map[string]int64    `json:"inputs"`
	UF       map[string][]vUFRow `json:"uf"`
	Switches []ctl.Switch        `json:"switches"`
	Lib      bool                `json:"lib"` // the library is compiled against the sync/atomic shims
	Advances []int64             `json:"advances"`
	ID       string              `json:"id"`
}

type vTraceEv struct {
	Tag    string  `json:"tag"`
	Thread int     `json:"thread"`
	Vals   []int64 `json:"vals"`
}

type vOutcome struct {
	ID      string     `json:"id"`
	Harness string     `json:"harness"`
	Outcome string     `json:"outcome"` // ok, assert, assume-false, panic, hang
	Msg     string     `json:"msg"`
	Trace   []vTraceEv `json:"trace"`
	Reached []string   `json:"reached"`
}

type vAssertFail struct{ msg string }
type vAssumeFail struct{}

type vState struct {
	mu        sync.Mutex
	c         *vCase
	nameCount map[string]int
	trace     []vTraceEv
	reached   []string
	failed    *vAssertFail
}

var vS *vState

func vFresh(name string) string {
	n := vS.nameCount[name]
	vS.nameCount[name] = n + 1
	if n == 0 {
		return name
	}
	return fmt.Sprintf("%s#%d", name, n)
}

func vInt64(name string) int64 {
	vS.mu.Lock()
	defer vS.mu.Unlock()
	return vS.c.Inputs[vFresh(name)]
}
func vInt(name string) int { return int(vInt64(name)) }
func vBool(name string) bool {
	return vInt64(name) != 0
}
func vChoice(name string, n int) int {
	v := int(vInt64(name))
	if v < 0 || v >= n {
		v = 0
	}
	return v
}

func vUFLookup(name string, args []int64) int64 {
	vS.mu.Lock()
	defer vS.mu.Unlock()
rows:
	for _, r := range vS.c.UF[name] {
		if len(r.Args) != len(args) {
			continue
		}
		for i := range args {
			if r.Args[i] != args[i] {
				continue rows
			}
		}
		return r.Res
	}
	return 0
}
func vUFInt(name string, args ...int64) int64 { return vUFLookup(name, args) }
func vUFBool(name string, args ...int64) bool { return vUFLookup(name, args) != 0 }

func vAssume(c bool) {
	if !c {
		panic(vAssumeFail{})
	}
}

func vAssert(c bool, msg string) {
	if !c {
		vS.mu.Lock()
		if vS.failed == nil {
			vS.failed = &vAssertFail{msg}
		}
		vS.mu.Unlock()
		panic(vAssertFail{msg})
	}
}

func vReach(label string) {
	vS.mu.Lock()
	vS.reached = append(vS.reached, label)
	vS.mu.Unlock()
}

func vTrace(tag string, vals ...int64) {
	tid := vThread()
	vS.mu.Lock()
	if vals == nil {
		vals = []int64{}
	}
	vS.trace = append(vS.trace, vTraceEv{Tag: tag, Thread: tid, Vals: append([]int64{}, vals...)})
	vS.mu.Unlock()
}

func vSymbolic() bool { return false }

func vAnd(a, b bool) bool { return a && b }
func vIte(c bool, a, b int64) int64 {
	if c {
		return a
	}
	return b
}

// ---------------------------------------------------------------------------
// Threads: the cooperative replay controller lives in internal/verifrt/ctl (shared with the
// sync/atomic/time shims); with no recorded schedule it is inactive and goroutines run freely.

func vThread() int { return ctl.ThreadID() }

func vGo(f func()) {
	ctl.Go(func() {
		defer func() {
			if p := recover(); p != nil {
				if _, ok := p.(vAssertFail); ok {
					return
				}
				if _, ok := p.(vAssumeFail); ok {
					return
				}
				vS.mu.Lock()
				if vS.failed == nil {
					vS.failed = &vAssertFail{fmt.Sprintf("PANIC in thread %d: %v", ctl.ThreadID(), p)}
				}
				vS.mu.Unlock()
			}
		}()
		f()
	})
	ctl.HPoint("go")
}

func vYield() {
	if !ctl.Active() {
		runtime.Gosched()
		return
	}
	ctl.HPoint("yield")
}

// vQuiesce waits until the other goroutines have stopped making progress.
func vQuiesce() {
	ctl.HPoint("quiesce")
	// let uncontrolled (library) goroutines settle: at least 10 ms, and — on a loaded machine — until the
	// number of goroutines has stayed the same for 5 ms, at most 150 ms
	stable, last := 0, runtime.NumGoroutine()
	for i := 0; i < 300 && (i < 20 || stable < 10); i++ {
		vtime.Touch() // settling is not idleness: the clock stands still meanwhile
		runtime.Gosched()
		time.Sleep(500 * time.Microsecond)
		if g := runtime.NumGoroutine(); g == last {
			stable++
		} else {
			stable, last = 0, g
		}
	}
	vtime.Touch()
}

// vLive: with the sync shim the controller knows the library-started threads that are still alive
// (it cannot tell runnable from blocked); without it nothing is known.
func vLive() (int, int) { return ctl.Live(), 0 }

// The logical clock of the engine corresponds natively to the virtual clock of the
// time shim (only effective when the library was compiled against the shim).
func vNow() int64         { return vtime.NowNS() }
func vAdvance(d int64)    { vtime.Advance(d) }
func vPendingTimers() int { return vtime.Pending() }

// vRunCase runs one harness with the given model and returns what happened.
func vRunCase(c *vCase, h func()) (out vOutcome) {
	vS = &vState{c: c, nameCount: map[string]int{}}
	stop := make(chan struct{})
	defer close(stop)
	defer ctl.Stop()
	vtime.ResetClock()
	if os.Getenv("VERIF_TIMESHIM") == "1" {
		// "time passes when nothing can run": fire the earliest timer when the replay is idle
		go func() {
			for {
				select {
				case <-stop:
					return
				case <-time.After(5 * time.Millisecond):
					vtime.IdleAdvance(150 * time.Millisecond) // well above any pause a loaded machine puts between two harness points
				}
			}
		}()
	}
	out.ID = c.ID
	out.Harness = c.Harness
	done := make(chan struct{})
	var pan interface{}
	go func() {
		ctl.Start(c.Switches, c.Lib) // registers this goroutine as thread 0
		defer close(done)
		defer func() { pan = recover() }()
		h()
	}()
	select {
	case <-done:
	case <-time.After(8 * time.Second):
		out.Outcome = "hang"
		out.Msg = "harness did not finish within 8s"
		vS.mu.Lock()
		out.Trace = append([]vTraceEv{}, vS.trace...)
		out.Reached = append([]string{}, vS.reached...)
		vS.mu.Unlock()
		return
	}
	vS.mu.Lock()
	defer vS.mu.Unlock()
	out.Trace = vS.trace
	out.Reached = vS.reached
	switch p := pan.(type) {
	case nil:
		if vS.failed != nil {
			out.Outcome = "assert"
			out.Msg = vS.failed.msg
		} else {
			out.Outcome = "ok"
		}
	case vAssertFail:
		out.Outcome = "assert"
		out.Msg = p.msg
		if vS.failed != nil {
			// the first assertion that failed, in whichever thread (the engine's path ends there)
			out.Msg = vS.failed.msg
		}
	case vAssumeFail:
		out.Outcome = "assume-false"
	default:
		out.Outcome = "panic"
		out.Msg = fmt.Sprint(p)
	}
	return
}

// vReplayMain is called from the generated test: it reads the cases file named
// by VERIF_CASES, runs each case and writes one JSON line per case to VERIF_OUT.
func vReplayMain(reg map[string]func()) error {
	b, err := os.ReadFile(os.Getenv("VERIF_CASES"))
	if err != nil {
		return err
	}
	var cases []*vCase
	if err := json.Unmarshal(b, &cases); err != nil {
		return err
	}
	f, err := os.Create(os.Getenv("VERIF_OUT"))
	if err != nil {
		return err
	}
	defer f.Close()
	enc := json.NewEncoder(f)
	for _, c := range cases {
		h, ok := reg[c.Harness]
		if !ok {
			enc.Encode(vOutcome{ID: c.ID, Harness: c.Harness, Outcome: "missing"})
			continue
		}
		out := vRunCase(c, h)
		enc.Encode(out)
		if out.Outcome == "hang" {
			// leaked goroutines may disturb later cases; stop here, the driver re-runs the rest
			break
		}
	}
	return nil
}
