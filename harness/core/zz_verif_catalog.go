package ro

// Operator catalogue: one entry per operator instantiation at T=int64, with its
// parameter ranges and — where given — a reference model: a short pure function
// of the (legal) input script, itself executed symbolically.  Reference models
// are derived from the property statement, the examples/tests pinned by the
// unedited suite and the doc comments (oracle hierarchy in DESIGN.md §3); they
// constrain values, order, terminal and its position — nothing else.

import (
	"context"
)

type vPipeline func(ctx context.Context, rec *vRecorder) Subscription

// vPost describes an early-terminating stage appended downstream of the
// catalogue entry at subscription time (C14); the zero value appends nothing.
type vPostCfg struct {
	take  int64             // > 0: Take(n)
	first bool              // First(always true)
	until Observable[int64] // TakeUntil(signal)
	fail  int64             // > 0: a Tap callback that panics on the n-th value
}

var vPost vPostCfg

func vPipe[T any](o Observable[T], flat func(T) []int64) vPipeline {
	return func(ctx context.Context, rec *vRecorder) Subscription {
		oo := o
		if vPost.take > 0 {
			oo = Take[T](vPost.take)(oo)
		}
		if vPost.first {
			oo = First(func(T) bool { return true })(oo)
		}
		if vPost.until != nil {
			oo = TakeUntil[T, int64](vPost.until)(oo)
		}
		if vPost.fail > 0 {
			n := int64(0)
			oo = TapOnNext(func(T) {
				n++
				if n >= vPost.fail {
					panic(vErrC)
				}
			})(oo)
		}
		if vUseRaw {
			return oo.SubscribeWithContext(ctx, &vRawObs[T]{rec, flat})
		}
		return oo.SubscribeWithContext(ctx, vObs(rec, flat))
	}
}

type vCtx struct {
	src []Observable[int64]
	p   [4]int64 // parameters drawn by mk, read by ref
	L   int      // script length bound (parameters are assumed within [.., L+1])
}

type vOp struct {
	name string
	nsrc int
	cbs  []string // names of user-callback positions (fault-injection points)
	mk   func(c *vCtx) vPipeline
	ref  func(c *vCtx, in []vStep) []vEv
}

func vN(vals ...int64) vEv { return vEv{kind: vkNext, vals: vals} }
func vE(err error) vEv     { return vEv{kind: vkError, err: err} }
func vC() vEv              { return vEv{kind: vkComplete} }

// vTail appends the terminal of the input script (if any) to out.
func vTail(out []vEv, in []vStep) []vEv {
	if n := len(in); n > 0 {
		switch in[n-1].kind {
		case vkComplete:
			return append(out, vC())
		case vkError:
			return append(out, vE(vErrA))
		}
	}
	return out
}

func vVals(in []vStep) []int64 {
	var out []int64
	for _, s := range in {
		if s.kind == vkNext {
			out = append(out, s.v)
		}
	}
	return out
}

func vEnd(in []vStep) int {
	if n := len(in); n > 0 && in[n-1].kind != vkNext {
		return in[n-1].kind
	}
	return -1
}

// vParam draws a count-like parameter in [lo, c.L+1].
func vParam(c *vCtx, slot int, name string, lo int64) int64 {
	n := vInt64(name)
	vAssume(n >= lo)
	vAssume(n <= int64(c.L)+1)
	c.p[slot] = n
	return n
}

var vCatalog = []vOp{
	{name: "Just", nsrc: 0,
		mk: func(c *vCtx) vPipeline {
			c.p[0], c.p[1] = vInt64("a"), vInt64("b")
			return vPipe(Just(c.p[0], c.p[1]), vFlatInt)
		},
		ref: func(c *vCtx, in []vStep) []vEv { return []vEv{vN(c.p[0]), vN(c.p[1]), vC()} }},
	{name: "Map", nsrc: 1, cbs: []string{"f"},
		mk: func(c *vCtx) vPipeline {
			return vPipe(Map(func(v int64) int64 { vFP("f"); return vUFInt("f", v) })(c.src[0]), vFlatInt)
		},
		ref: func(c *vCtx, in []vStep) []vEv {
			var out []vEv
			for _, v := range vVals(in) {
				out = append(out, vN(vUFInt("f", v)))
			}
			return vTail(out, in)
		}},
	{name: "MapI", nsrc: 1, cbs: []string{"f"},
		mk: func(c *vCtx) vPipeline {
			return vPipe(MapI(func(v int64, i int64) int64 { vFP("f"); return vUFInt("f", v, i) })(c.src[0]), vFlatInt)
		},
		ref: func(c *vCtx, in []vStep) []vEv {
			var out []vEv
			for i, v := range vVals(in) {
				out = append(out, vN(vUFInt("f", v, int64(i))))
			}
			return vTail(out, in)
		}},
	{name: "Filter", nsrc: 1, cbs: []string{"p"},
		mk: func(c *vCtx) vPipeline {
			return vPipe(Filter(func(v int64) bool { vFP("p"); return vUFBool("p", v) })(c.src[0]), vFlatInt)
		},
		ref: func(c *vCtx, in []vStep) []vEv {
			var out []vEv
			for _, v := range vVals(in) {
				if vUFBool("p", v) {
					out = append(out, vN(v))
				}
			}
			return vTail(out, in)
		}},
	{name: "Take", nsrc: 1,
		mk: func(c *vCtx) vPipeline {
			return vPipe(Take[int64](vParam(c, 0, "n", 0))(c.src[0]), vFlatInt)
		},
		ref: func(c *vCtx, in []vStep) []vEv {
			// Take(0) is Empty: completes at once whatever the source does
			if c.p[0] == 0 {
				return []vEv{vC()}
			}
			var out []vEv
			for i, v := range vVals(in) {
				out = append(out, vN(v))
				if int64(i+1) >= c.p[0] {
					return append(out, vC())
				}
			}
			return vTail(out, in)
		}},
	{name: "Skip", nsrc: 1,
		mk: func(c *vCtx) vPipeline {
			return vPipe(Skip[int64](vParam(c, 0, "n", 0))(c.src[0]), vFlatInt)
		},
		ref: func(c *vCtx, in []vStep) []vEv {
			var out []vEv
			for i, v := range vVals(in) {
				if int64(i) >= c.p[0] {
					out = append(out, vN(v))
				}
			}
			return vTail(out, in)
		}},
	{name: "TakeLast", nsrc: 1,
		mk: func(c *vCtx) vPipeline {
			return vPipe(TakeLast[int64](int(vParam(c, 0, "n", 0)))(c.src[0]), vFlatInt)
		},
		ref: func(c *vCtx, in []vStep) []vEv {
			if c.p[0] == 0 {
				return []vEv{vC()}
			}
			vals := vVals(in)
			switch vEnd(in) {
			case vkComplete:
				var out []vEv
				from := len(vals) - int(c.p[0])
				if from < 0 {
					from = 0
				}
				for _, v := range vals[from:] {
					out = append(out, vN(v))
				}
				return append(out, vC())
			case vkError:
				return []vEv{vE(vErrA)}
			}
			return nil
		}},
	{name: "SkipLast", nsrc: 1,
		mk: func(c *vCtx) vPipeline {
			return vPipe(SkipLast[int64](int(vParam(c, 0, "n", 1)))(c.src[0]), vFlatInt)
		},
		ref: func(c *vCtx, in []vStep) []vEv {
			vals := vVals(in)
			var out []vEv
			for i := 0; i < len(vals)-int(c.p[0]); i++ {
				out = append(out, vN(vals[i]))
			}
			return vTail(out, in)
		}},
	{name: "Distinct", nsrc: 1,
		mk: func(c *vCtx) vPipeline { return vPipe(Distinct[int64]()(c.src[0]), vFlatInt) },
		ref: func(c *vCtx, in []vStep) []vEv {
			var out []vEv
			var seen []int64
			for _, v := range vVals(in) {
				dup := false
				for _, s := range seen {
					if s == v {
						dup = true
					}
				}
				if !dup {
					seen = append(seen, v)
					out = append(out, vN(v))
				}
			}
			return vTail(out, in)
		}},
	{name: "Scan", nsrc: 1, cbs: []string{"g"},
		mk: func(c *vCtx) vPipeline {
			seed := vInt64("seed")
			c.p[0] = seed
			return vPipe(Scan(func(acc int64, v int64) int64 { vFP("g"); return vUFInt("g", acc, v) }, seed)(c.src[0]), vFlatInt)
		},
		ref: func(c *vCtx, in []vStep) []vEv {
			var out []vEv
			acc := c.p[0]
			for _, v := range vVals(in) {
				acc = vUFInt("g", acc, v)
				out = append(out, vN(acc))
			}
			return vTail(out, in)
		}},
	{name: "Count", nsrc: 1,
		mk: func(c *vCtx) vPipeline { return vPipe(Count[int64]()(c.src[0]), vFlatInt) },
		ref: func(c *vCtx, in []vStep) []vEv {
			switch vEnd(in) {
			case vkComplete:
				return []vEv{vN(int64(len(vVals(in)))), vC()}
			case vkError:
				return []vEv{vE(vErrA)}
			}
			return nil
		}},
	{name: "Sum", nsrc: 1,
		mk: func(c *vCtx) vPipeline { return vPipe(Sum[int64]()(c.src[0]), vFlatInt) },
		ref: func(c *vCtx, in []vStep) []vEv {
			switch vEnd(in) {
			case vkComplete:
				var s int64
				for _, v := range vVals(in) {
					s += v
				}
				return []vEv{vN(s), vC()}
			case vkError:
				return []vEv{vE(vErrA)}
			}
			return nil
		}},
	{name: "ToSlice", nsrc: 1,
		mk: func(c *vCtx) vPipeline { return vPipe(ToSlice[int64]()(c.src[0]), vFlatSlice) },
		ref: func(c *vCtx, in []vStep) []vEv {
			switch vEnd(in) {
			case vkComplete:
				return []vEv{vN(vFlatSlice(vVals(in))...), vC()}
			case vkError:
				return []vEv{vE(vErrA)}
			}
			return nil
		}},
	{name: "BufferWithCount", nsrc: 1,
		mk: func(c *vCtx) vPipeline {
			return vPipe(BufferWithCount[int64](int(vParam(c, 0, "n", 1)))(c.src[0]), vFlatSlice)
		},
		ref: func(c *vCtx, in []vStep) []vEv {
			// pinned by ExampleBufferWithCount_error: a partial buffer is flushed on completion only
			var out []vEv
			var buf []int64
			for _, v := range vVals(in) {
				buf = append(buf, v)
				if int64(len(buf)) >= c.p[0] {
					out = append(out, vN(vFlatSlice(buf)...))
					buf = nil
				}
			}
			if vEnd(in) == vkComplete && len(buf) > 0 {
				out = append(out, vN(vFlatSlice(buf)...))
			}
			return vTail(out, in)
		}},
	{name: "StartWith", nsrc: 1,
		mk: func(c *vCtx) vPipeline {
			a, b := vInt64("pa"), vInt64("pb")
			c.p[0], c.p[1] = a, b
			return vPipe(StartWith(a, b)(c.src[0]), vFlatInt)
		},
		ref: func(c *vCtx, in []vStep) []vEv {
			out := []vEv{vN(c.p[0]), vN(c.p[1])}
			for _, v := range vVals(in) {
				out = append(out, vN(v))
			}
			return vTail(out, in)
		}},
	{name: "EndWith", nsrc: 1,
		mk: func(c *vCtx) vPipeline {
			a := vInt64("pa")
			c.p[0] = a
			return vPipe(EndWith(a)(c.src[0]), vFlatInt)
		},
		ref: func(c *vCtx, in []vStep) []vEv {
			var out []vEv
			for _, v := range vVals(in) {
				out = append(out, vN(v))
			}
			if vEnd(in) == vkComplete {
				out = append(out, vN(c.p[0]))
			}
			return vTail(out, in)
		}},
}

func vFindOp(name string) *vOp {
	for i := range vCatalog {
		if vCatalog[i].name == name {
			return &vCatalog[i]
		}
	}
	panic("no catalogue entry " + name)
}
