package ro

import "context"

// C04 / C01 (chains): "a chain behaves as the composition of its parts".  For an
// ordered pair (A, B) of int64->int64 operator values: run A over the source and
// record what it delivers; play exactly that recording into B alone; the chain
// B(A(source)) must deliver the same notifications as that two-stage run.  No
// reference model is involved: every operator is compared with itself under
// composition, for all payloads (S) and all scripts up to the bound (E).

type vChainOp struct {
	name string
	mk   func(n, a int64, tag string) func(Observable[int64]) Observable[int64]
}

var vChainOps = []vChainOp{
	{"Map", func(n, a int64, t string) func(Observable[int64]) Observable[int64] {
		return Map(func(v int64) int64 { return vUFInt("f"+t, v) })
	}},
	{"MapI", func(n, a int64, t string) func(Observable[int64]) Observable[int64] {
		return MapI(func(v int64, i int64) int64 { return vUFInt("fi"+t, v, i) })
	}},
	{"Filter", func(n, a int64, t string) func(Observable[int64]) Observable[int64] {
		return Filter(func(v int64) bool { return vUFBool("p"+t, v) })
	}},
	{"Take", func(n, a int64, t string) func(Observable[int64]) Observable[int64] { return Take[int64](n) }},
	{"Skip", func(n, a int64, t string) func(Observable[int64]) Observable[int64] { return Skip[int64](n) }},
	{"TakeLast", func(n, a int64, t string) func(Observable[int64]) Observable[int64] { return TakeLast[int64](int(n)) }},
	{"SkipLast", func(n, a int64, t string) func(Observable[int64]) Observable[int64] { return SkipLast[int64](int(n)) }},
	{"Distinct", func(n, a int64, t string) func(Observable[int64]) Observable[int64] { return Distinct[int64]() }},
	{"Scan", func(n, a int64, t string) func(Observable[int64]) Observable[int64] {
		return Scan(func(acc, v int64) int64 { return vUFInt("g"+t, acc, v) }, a)
	}},
	{"TakeWhile", func(n, a int64, t string) func(Observable[int64]) Observable[int64] {
		return TakeWhile(func(v int64) bool { return vUFBool("tw"+t, v) })
	}},
	{"SkipWhile", func(n, a int64, t string) func(Observable[int64]) Observable[int64] {
		return SkipWhile(func(v int64) bool { return vUFBool("sw"+t, v) })
	}},
	{"StartWith", func(n, a int64, t string) func(Observable[int64]) Observable[int64] { return StartWith(a) }},
	{"EndWith", func(n, a int64, t string) func(Observable[int64]) Observable[int64] { return EndWith(a) }},
	{"DefaultIfEmpty", func(n, a int64, t string) func(Observable[int64]) Observable[int64] { return DefaultIfEmpty(a) }},
	{"Sum", func(n, a int64, t string) func(Observable[int64]) Observable[int64] { return Sum[int64]() }},
	{"Count", func(n, a int64, t string) func(Observable[int64]) Observable[int64] { return Count[int64]() }},
	{"Max", func(n, a int64, t string) func(Observable[int64]) Observable[int64] { return Max[int64]() }},
	{"Last", func(n, a int64, t string) func(Observable[int64]) Observable[int64] {
		return Last(func(v int64) bool { return vUFBool("l"+t, v) })
	}},
	{"ElementAt", func(n, a int64, t string) func(Observable[int64]) Observable[int64] { return ElementAt[int64](int(n)) }},
	{"OnErrorReturn", func(n, a int64, t string) func(Observable[int64]) Observable[int64] { return OnErrorReturn(a) }},
	{"TapOnNext", func(n, a int64, t string) func(Observable[int64]) Observable[int64] {
		return TapOnNext(func(v int64) {})
	}},
	{"Serialize", func(n, a int64, t string) func(Observable[int64]) Observable[int64] { return Serialize[int64]() }},
}

// vReplaySource plays a recorded notification sequence (values then at most one terminal).
func vReplaySource(evs []vEv) Observable[int64] {
	return NewUnsafeObservableWithContext(func(ctx context.Context, d Observer[int64]) Teardown {
		for _, e := range evs {
			switch e.kind {
			case vkNext:
				d.NextWithContext(ctx, e.vals[0])
			case vkError:
				d.ErrorWithContext(ctx, e.err)
			default:
				d.CompleteWithContext(ctx)
			}
		}
		return nil
	})
}

func vC04Chain(L int) {
	ia := vChoice("a", len(vChainOps))
	ib := vChoice("b", len(vChainOps))
	in := vLegalScript("s", L)
	na := vInt64("na")
	vAssume(na >= 1)
	vAssume(na <= int64(L)+1)
	nb := vInt64("nb")
	vAssume(nb >= 1)
	vAssume(nb <= int64(L)+1)
	pa, pb := vInt64("pa"), vInt64("pb")
	name := vChainOps[ia].name + "|" + vChainOps[ib].name
	mkA := func() func(Observable[int64]) Observable[int64] { return vChainOps[ia].mk(na, pa, "A") }
	mkB := func() func(Observable[int64]) Observable[int64] { return vChainOps[ib].mk(nb, pb, "B") }
	// stage by stage
	r1 := &vRecorder{name: "a"}
	mkA()(&vProbe{name: "s1", cold: true, script: in}).SubscribeWithContext(context.Background(), vObs(r1, vFlatInt))
	r2 := &vRecorder{name: "b"}
	mkB()(vReplaySource(r1.evs)).SubscribeWithContext(context.Background(), vObs(r2, vFlatInt))
	// the chain
	rc := &vRecorder{name: "c"}
	p := &vProbe{name: "s2", cold: true, script: in}
	Pipe2(Observable[int64](p), mkA(), mkB()).SubscribeWithContext(context.Background(), vObs(rc, vFlatInt))
	vCheckGrammar(name, rc)
	vSameEvents(name+": the chain differs from the composition of its parts", rc.evs, r2.evs)
	if rc.terminals() > 0 {
		vAssert(p.live == 0, name+": the source is still subscribed after the chain terminated")
	}
	vReach("end")
}

func vhC04_chain_L2() { vC04Chain(2) }
func vhC04_chain_L3() { vC04Chain(3) }
