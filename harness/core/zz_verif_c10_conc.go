package ro

import "context"

// C10 (second half): concurrent histories.  Two threads issue two operations
// each on one subject (one subscriber is attached beforehand); observers yield
// inside their callbacks.  Every explored schedule's history (call/return
// stamps + what each subscriber received) must have a linearization: a total
// order of the four operations, compatible with each thread's program order and
// with real time, under which the sequential definition produces exactly the
// observed traces.  Values are distinct constants: this part is pure schedule
// exploration.

type vLOp struct {
	kind      int // 0 Next, 1 Complete, 2 Subscribe, 3 Unsubscribe(s0)
	val       int64
	sub       int // index of the subscriber created by a Subscribe op
	call, ret int
	thread    int
}

func vLinMatches(kind int, bufSize int64, initial int64, order []int, ops []vLOp, recs []*vRecorder) bool {
	m := &vSubjModel{kind: kind, bufSize: bufSize}
	if kind == vsBehavior {
		m.buf = []int64{initial}
	}
	m.subscribe() // s0
	idx := map[int]int{}
	unsub0 := false
	for _, oi := range order {
		op := ops[oi]
		switch op.kind {
		case 0:
			m.next(op.val)
		case 1:
			m.terminate(vkComplete)
		case 2:
			idx[op.sub] = len(m.subs)
			m.subscribe()
		default:
			// Unsubscribe may take effect at any point of a delivery in progress (C06: "only a
			// callback already in progress may finish"): the model lets s0 keep listening and the
			// comparison below accepts any prefix of what it would then have received.
			unsub0 = true
			if kind == vsUnicast {
				// unicast admits one subscriber at a time: whether a later Subscribe is admitted
				// depends on s0 having left, so here the model must let it leave
				m.subs[0].active = false
			}
		}
	}
	cmp := func(got []vEv, want []vEv) bool {
		if len(got) != len(want) {
			return false
		}
		for i := range got {
			if got[i].kind != want[i].kind {
				return false
			}
			if got[i].kind == vkNext && got[i].vals[0] != want[i].vals[0] {
				return false
			}
			if got[i].kind == vkError && vErrCodeX(got[i].err) != vErrCodeX(want[i].err) {
				return false
			}
		}
		return true
	}
	if unsub0 {
		w := m.subs[0].want
		if len(recs[0].evs) > len(w) || !cmp(recs[0].evs, w[:len(recs[0].evs)]) {
			return false
		}
	} else if !cmp(recs[0].evs, m.subs[0].want) {
		return false
	}
	for s, mi := range idx {
		if !cmp(recs[s].evs, m.subs[mi].want) {
			return false
		}
	}
	return true
}

func vPerms4() [][]int {
	var out [][]int
	var rec func(cur []int, used [4]bool)
	rec = func(cur []int, used [4]bool) {
		if len(cur) == 4 {
			out = append(out, append([]int{}, cur...))
			return
		}
		for i := 0; i < 4; i++ {
			if !used[i] {
				used[i] = true
				rec(append(cur, i), used)
				used[i] = false
			}
		}
	}
	rec(nil, [4]bool{})
	return out
}

func vC10Conc(kind int, via bool) {
	name := vSubjName(kind)
	// via: every subscription goes through a pass-through operator built with the unsafe
	// constructor, so the subject receives a ready-made lock-free Subscriber and its own lock is
	// the only thing that serializes the observer's callbacks (C02: "all subjects give the same
	// guarantee")
	var target Observable[int64]
	bufSize := int64(-1)
	if kind == vsReplay || kind == vsUnicast {
		bufSize = 2
	}
	initial := int64(1)
	subj := vNewSubject(kind, bufSize, initial)
	recs := []*vRecorder{{name: "s0", yield: true, quiet: true}}
	target = subj
	if via {
		name += " behind TapOnFinalize"
		target = TapOnFinalize[int64](func() {})(target)
	}
	sub0 := target.SubscribeWithContext(context.Background(), vObs(recs[0], vFlatInt))
	ops := make([]vLOp, 4)
	for i := range ops {
		ops[i].thread = i / 2
		ops[i].kind = vChoice("op"+vItoa(i), 4)
		ops[i].val = int64(10 + i)
		if ops[i].kind == 2 {
			ops[i].sub = len(recs)
			recs = append(recs, &vRecorder{name: "s" + vItoa(len(recs)), yield: true, quiet: true})
		}
	}
	if kind == vsUnicast {
		// unicast admits one subscriber at a time: at most one Subscribe in the concurrent part (it
		// is admitted if s0 has left by then, rejected with ErrUnicastSubjectConcurrent otherwise)
		nsub := 0
		for i := range ops {
			if ops[i].kind == 2 {
				nsub++
			}
		}
		if nsub > 1 {
			vAssume(false)
		}
		if nsub == 1 {
			// a subscriber arriving after the termination is the listed finding of vhC10_seq_unicast
			// (backlog not replayed): keep terminals out of the histories with a Subscribe
			for i := range ops {
				if ops[i].kind == 1 {
					vAssume(false)
				}
			}
		}
	}
	clock := 0
	run := func(t int) {
		for i := t * 2; i < t*2+2; i++ {
			op := &ops[i]
			clock++
			op.call = clock
			switch op.kind {
			case 0:
				subj.NextWithContext(context.Background(), op.val)
			case 1:
				subj.CompleteWithContext(context.Background())
			case 2:
				target.SubscribeWithContext(context.Background(), vObs(recs[op.sub], vFlatInt))
			default:
				sub0.Unsubscribe()
			}
			clock++
			op.ret = clock
		}
	}
	vGo(func() { run(0) })
	vGo(func() { run(1) })
	vQuiesce()
	for _, r := range recs {
		vAssert(!r.overlap, name+": callbacks of one observer overlapped")
		vCheckGrammar(name, r)
	}
	found := false
	for _, p := range vPerms4() {
		ok := true
		pos := [4]int{}
		for k, oi := range p {
			pos[oi] = k
		}
		for a := 0; a < 4 && ok; a++ {
			for b := 0; b < 4; b++ {
				if a == b {
					continue
				}
				// program order and real time: a returned before b was called => a before b
				if ops[a].ret < ops[b].call && pos[a] > pos[b] {
					ok = false
					break
				}
			}
		}
		if ok && vLinMatches(kind, bufSize, initial, p, ops, recs) {
			found = true
			break
		}
	}
	class := ""
	if kind == vsUnicast {
		nu, ns := 0, 0
		for i := range ops {
			if ops[i].kind == 3 {
				nu++
			}
			if ops[i].kind == 2 {
				ns++
			}
		}
		if nu >= 2 && ns == 1 {
			// a listed finding: of two concurrent Unsubscribe calls the second returns at once while the
			// first is still releasing, so a Subscribe issued after that return can still be refused
			class = " [two concurrent Unsubscribe calls and a Subscribe]"
		}
	}
	vAssert(found, name+": the concurrent history has no linearization under the sequential definition"+class)
	vReach("end")
}

func vhC10_conc_publish()  { vC10Conc(vsPublish, false) }
func vhC10_conc_behavior() { vC10Conc(vsBehavior, false) }
func vhC10_conc_replay()   { vC10Conc(vsReplay, false) }
func vhC10_conc_async()    { vC10Conc(vsAsync, false) }
func vhC10_conc_unicast()  { vC10Conc(vsUnicast, false) }

func vhC10_concvia_publish()  { vC10Conc(vsPublish, true) }
func vhC10_concvia_behavior() { vC10Conc(vsBehavior, true) }
func vhC10_concvia_replay()   { vC10Conc(vsReplay, true) }
func vhC10_concvia_async()    { vC10Conc(vsAsync, true) }

// C10 (unicast, concurrent subscription): values queued before any subscriber, then one thread
// subscribes while another keeps producing.  Whatever the interleaving, the single subscriber
// receives the queued values first, then the live ones, each exactly once and in emission order
// (one producer: emission order is total), and no callbacks overlap.
func vC10UnicastSub(q, n int) {
	subj := NewUnicastSubject[int64](8)
	for i := 0; i < q; i++ {
		subj.NextWithContext(context.Background(), int64(10+i))
	}
	rec := &vRecorder{name: "u", yield: true, quiet: true}
	done := vChoice("done", 2) == 1
	vGo(func() { subj.SubscribeWithContext(context.Background(), vObs(rec, vFlatInt)) })
	vGo(func() {
		for i := 0; i < n; i++ {
			subj.NextWithContext(context.Background(), int64(10+q+i))
		}
		if done {
			subj.CompleteWithContext(context.Background())
		}
	})
	vQuiesce()
	vAssert(!rec.overlap, "unicast: callbacks of one observer overlapped")
	vCheckGrammar("unicast", rec)
	if done && rec.nexts() == 0 {
		// the subscriber arrived after the completion: the sequential definition (vhC10_seq_unicast,
		// a listed finding) gives it the unconsumed backlog; kept apart from a loss during production
		vAssert(false, "unicast: subscriber arriving after termination received a different number of notifications than the definition prescribes")
	}
	vAssert(rec.nexts() == q+n, "unicast: a queued or live value was lost or duplicated when the subscriber arrived during production")
	k := 0
	for _, e := range rec.evs {
		if e.kind == vkNext {
			vAssert(e.vals[0] == int64(10+k), "unicast: the subscriber did not receive the values in emission order (queued values first)")
			k++
		}
	}
	if done {
		vAssert(rec.terminals() == 1, "unicast: the completion was not delivered")
	}
	vReach("end")
}

func vhC10_concsub_unicast_2x2() { vC10UnicastSub(2, 2) }
