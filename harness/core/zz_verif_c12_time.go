package ro

import (
	"context"
	"time"
)

// C12 with time passing between building a pipeline and subscribing it: "a re-subscription
// produces the same notifications as a first subscription to a freshly built pipeline".  The
// context operators that attach a relative timeout count it from the notification, not from the
// moment the operator was applied: a pipeline that has aged still hands out live contexts.
func vC12CtxTimeout() {
	const d = int64(time.Hour)
	age := vInt64("age") // time between building the pipeline and subscribing it
	vAssume(age >= 0)
	vAssume(age <= 4*d)
	p := &vProbe{name: "src"}
	obs := ContextWithTimeout[int64](time.Duration(d))(p)
	vAdvance(age)
	var ctxs []context.Context
	var at []time.Time
	obs.SubscribeWithContext(context.Background(), NewObserverWithContext(
		func(ctx context.Context, v int64) { ctxs = append(ctxs, ctx); at = append(at, time.Now()) },
		func(ctx context.Context, err error) {},
		func(ctx context.Context) {},
	))
	p.emit(vStep{vkNext, 1})
	vAdvance(d / 2)
	p.emit(vStep{vkNext, 2})
	vAssert(len(ctxs) == 2, "ContextWithTimeout: not exactly one notification per value")
	for i, ctx := range ctxs {
		dl, ok := ctx.Deadline()
		vAssert(ok, "ContextWithTimeout: the notification's context carries no deadline")
		// (one second of slack: natively the context package reads the real clock, and a few
		// microseconds pass between the operator and the observer)
		vAssert(dl.Sub(at[i]) >= time.Duration(d)-time.Second, "ContextWithTimeout: the timeout of a notification does not count from that notification (an aged pipeline hands out contexts that expire early)")
	}
	vReach("end")
}

func vhC12_ctxtimeout() { vC12CtxTimeout() }
