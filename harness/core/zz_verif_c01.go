package ro

import "context"

// C01(b): every catalogue entry fed by rogue scripts (any sequence over
// {Next, Error, Complete}, continuing after a terminal), cold or hot, through a
// direct probe (the operator's own observer sees the illegal suffix) or through
// the subscriber path: the final observer sees Next* (Error|Complete)? and
// nothing afterwards.
func vC01Cat(L int) {
	op := &vCatalog[vChoice("entry", len(vCatalog))]
	if op.nsrc > 1 {
		vAssume(false)
	}
	var in []vStep
	if op.nsrc == 1 {
		in = vRogueScript("s", L)
	}
	p := &vProbe{name: "src"}
	mode := vChoice("mode", 3) // 0 cold direct, 1 hot direct, 2 cold via subscriber
	var src Observable[int64] = p
	if mode != 1 {
		p.cold = true
		p.script = in
	}
	if mode == 2 {
		src = vSubProbe(p)
	}
	c := &vCtx{src: []Observable[int64]{src}, L: L}
	pipe := op.mk(c)
	rec := &vRecorder{}
	pipe(context.Background(), rec)
	if mode == 1 {
		for _, st := range in {
			p.emit(st)
		}
	}
	vCheckGrammar(op.name, rec)
	vReach("end")
}

func vhC01_cat_L3() { vC01Cat(3) }
func vhC01_cat_L4() { vC01Cat(4) }

// C01(a): a bare observable built with each constructor mode; the producer
// plays a rogue script inside subscribe and continues after Subscribe returned.
// Every emitted notification is either delivered or handed to the
// dropped-notification hook.
func vC01Bare(L int) {
	hooks := vInstallHooks()
	in := vRogueScript("s", L)
	cut := vChoice("cut", L+1) // steps [0,cut) played inside subscribe, the rest afterwards
	mode := vChoice("mode", 3)
	boom := vChoice("boom", 3)
	var dest Observer[int64]
	subscribe := func(ctx context.Context, d Observer[int64]) Teardown {
		dest = d
		for _, st := range in[:cut] {
			vEmit(d, ctx, st)
		}
		switch boom {
		case 1:
			// the subscribe function panics after what it emitted (possibly a terminal): the recovered
			// panic may become the stream's Error only through the subscriber's terminal-once guard
			panic(vErrB)
		case 2:
			// a teardown that panics; it runs at once when the script already ended the stream
			return func() { panic(vErrB) }
		}
		return nil
	}
	var obs Observable[int64]
	switch mode {
	case 0:
		obs = NewSafeObservableWithContext(subscribe)
	case 1:
		obs = NewUnsafeObservableWithContext(subscribe)
	default:
		obs = NewEventuallySafeObservableWithContext(subscribe)
	}
	rec := &vRecorder{}
	if vChoice("raw", 2) == 1 {
		obs.SubscribeWithContext(context.Background(), &vRawObserver{rec})
	} else {
		obs.SubscribeWithContext(context.Background(), vObs(rec, vFlatInt))
	}
	for _, st := range in[cut:] {
		func() {
			// the panic of the teardown is re-raised to whoever closes the subscription (C03): here the producer
			defer func() {
				if p := recover(); p != nil {
					vAssert(boom == 2, "bare: a notification call panicked although no teardown panics")
				}
			}()
			vEmit(dest, context.Background(), st)
		}()
	}
	vCheckGrammar("bare", rec)
	vAssert(len(rec.evs)+hooks.dropped >= L, "bare: a notification was neither delivered nor surfaced through the dropped-notification hook")
	vReach("end")
}

func vhC01_bare_L3() { vC01Bare(3) }
func vhC01_bare_L4() { vC01Bare(4) }
