package ro

import "context"

// C12 / C13 for the precision-rounding float operators (CeilWithPrecision / FloorWithPrecision),
// whose overflow path goes through math/big: one operator value applied to two sources, subscribed
// from two threads at once, with CONCRETE values that take the big.Float path.  Nothing symbolic is
// decided here (floats are outside the bit-vector encoding): what the engine contributes is the
// schedule exploration and the happens-before race detection over the operator's own memory.
// math/big is executed from its pure-Go kernels (build tag math_big_pure_go).
func vC13FloatConc() {
	var op func(Observable[float64]) Observable[float64]
	if vChoice("op", 2) == 0 {
		op = CeilWithPrecision(10)
	} else {
		op = FloorWithPrecision(10)
	}
	in := []float64{1.5e300, -2.5e300}
	var want [2][]float64
	for k := 0; k < 2; k++ {
		k := k
		op(Just(in[k])).SubscribeWithContext(context.Background(), NewObserver(
			func(v float64) { want[k] = append(want[k], v) }, func(error) {}, func() {}))
	}
	var got [2][]float64
	for k := 0; k < 2; k++ {
		k := k
		vGo(func() {
			op(Just(in[k])).SubscribeWithContext(context.Background(), NewObserver(
				func(v float64) { got[k] = append(got[k], v) }, func(error) {}, func() {}))
		})
	}
	vQuiesce()
	for k := 0; k < 2; k++ {
		vAssert(len(got[k]) == len(want[k]), "precision rounding: a concurrent application of one operator value delivered a different number of values than alone")
		for i := range got[k] {
			vAssert(got[k][i] == want[k][i], "precision rounding: a concurrent application of one operator value delivered a different value than alone")
		}
	}
	vReach("end")
}

func vhC13_floatconc() { vC13FloatConc() }
