package ro

import "context"

// C03(a): a bare subscription with up to 3 teardowns of which a symbolic subset
// panics, driven by a symbolic sequence of {Unsubscribe, Add}: every teardown
// runs exactly once, Add after disposal runs at once, a panicking teardown
// does not stop the others and the panic reaches the caller of Unsubscribe
// only after all of them have run.
func vC03Sub(K int) {
	var counts [4]int
	var panics [4]bool
	nAdded := 0
	mkTeardown := func(i int) Teardown {
		return func() {
			counts[i]++
			if panics[i] {
				panic(vErrB)
			}
		}
	}
	var sub Subscription
	if vChoice("ctor", 2) == 0 {
		sub = NewSubscription(nil)
	} else {
		panics[0] = vBool("panic0")
		sub = NewSubscription(mkTeardown(0))
		nAdded = 1
	}
	disposed := false
	for step := 0; step < K; step++ {
		if vChoice("op"+vItoa(step), 2) == 0 {
			// Unsubscribe
			var recovered interface{}
			ranAtRecover := 0
			func() {
				defer func() {
					recovered = recover()
					for i := 0; i < nAdded; i++ {
						ranAtRecover += counts[i]
					}
				}()
				sub.Unsubscribe()
			}()
			if !disposed {
				anyPanic := false
				for i := 0; i < nAdded; i++ {
					vAssert(counts[i] == 1, "subscription: a teardown did not run exactly once on Unsubscribe")
					if panics[i] {
						anyPanic = true
					}
				}
				vAssert((recovered != nil) == anyPanic, "subscription: a teardown panic was swallowed or invented")
				vAssert(ranAtRecover == nAdded, "subscription: the panic was re-raised before all teardowns had run")
			} else {
				vAssert(recovered == nil, "subscription: a repeated Unsubscribe panicked")
			}
			disposed = true
			vAssert(sub.IsClosed(), "subscription: not closed after Unsubscribe returned")
		} else {
			if nAdded >= 4 {
				vAssume(false)
			}
			i := nAdded
			panics[i] = vBool("panic" + vItoa(i))
			nAdded++
			var recovered interface{}
			func() {
				defer func() { recovered = recover() }()
				sub.Add(mkTeardown(i))
			}()
			if disposed {
				vAssert(counts[i] == 1, "subscription: a teardown added after disposal did not run at once")
			} else {
				vAssert(counts[i] == 0, "subscription: a teardown ran before disposal")
				vAssert(recovered == nil, "subscription: Add panicked")
			}
			// whatever happened, the subscription stays usable (no lock left held)
			vAssert(sub.IsClosed() == disposed, "subscription: IsClosed wrong after Add")
		}
	}
	for i := 0; i < nAdded; i++ {
		vAssert(counts[i] <= 1, "subscription: a teardown ran more than once")
	}
	vReach("end")
}

func vhC03_sub_K3() { vC03Sub(3) }
func vhC03_sub_K4() { vC03Sub(4) }

// C03(c)+C06: every catalogue entry over a hot probe; the script is cut by an
// external Unsubscribe at a symbolic position, or ends by itself.  Afterwards
// the source has been released exactly once, the subscription reports closed,
// Wait returns, no library goroutine is left, and nothing emitted after
// Unsubscribe returned is delivered.
func vC03Cut(L int) {
	op := &vCatalog[vChoice("entry", len(vCatalog))]
	if op.nsrc != 1 {
		vAssume(false)
	}
	in := vLegalScript("s", L)
	cut := vChoice("cut", len(in)+2) // == len(in)+1: never unsubscribe
	p := &vProbe{name: "src"}
	c := &vCtx{src: []Observable[int64]{p}, L: L}
	pipe := op.mk(c)
	vAssert(p.subs == 0, op.name+": the source was subscribed at construction time")
	rec := &vRecorder{}
	sub := pipe(context.Background(), rec)
	vAssert(p.subs <= 1, op.name+": the source was subscribed more than once")
	unsubscribed := false
	seenAtUnsub := 0
	for i := 0; i <= len(in); i++ {
		if i == cut {
			sub.Unsubscribe()
			unsubscribed = true
			seenAtUnsub = len(rec.evs)
			vAssert(sub.IsClosed(), op.name+": IsClosed is false after Unsubscribe returned")
		}
		if i < len(in) {
			p.emit(in[i])
		}
	}
	vCheckGrammar(op.name, rec)
	if unsubscribed {
		vAssert(len(rec.evs) == seenAtUnsub, op.name+": a notification emitted after Unsubscribe returned was delivered")
		sub.Unsubscribe() // repeated call is harmless
	}
	ended := unsubscribed || rec.terminals() > 0
	if ended {
		vAssert(sub.IsClosed(), op.name+": subscription not closed after the stream terminated")
		vAssert(p.live == 0, op.name+": the source is still subscribed after the subscription closed")
		vAssert(p.maxTorn() <= 1, op.name+": the source's teardown ran more than once")
		sub.Wait() // must return (a hang is reported as a deadlock)
		vQuiesce() // a goroutine that has been told to stop gets the chance to do so
		run, blk := vLive()
		vAssert(run == 0 && blk == 0, op.name+": a library goroutine is left after the subscription closed")
	} else {
		vAssert(p.teardowns == 0 || p.subs == 0, op.name+": the source was released although the stream is still running")
	}
	vReach("end")
}

func vhC03_cut_L2() { vC03Cut(2) }
func vhC03_cut_L3() { vC03Cut(3) }

// C03(b): the same subscription used from 2..3 threads at once: {Unsubscribe, Add(teardown)}.
// However the calls race, every teardown that was added runs exactly once (by the Unsubscribe that
// disposes the subscription, or at once when added after disposal), and afterwards the subscription
// is closed.
func vC03SubConc(nthreads int) {
	var counts [4]int
	sub := NewSubscription(func() { counts[0]++ })
	added := 1
	kinds := make([]int, nthreads)
	anyUnsub := false
	for t := 0; t < nthreads; t++ {
		kinds[t] = vChoice("op"+vItoa(t), 2)
		if kinds[t] == 0 {
			anyUnsub = true
		}
	}
	if !anyUnsub {
		vAssume(false)
	}
	for t := 0; t < nthreads; t++ {
		if kinds[t] == 0 {
			vGo(func() { sub.Unsubscribe() })
		} else {
			i := added
			added++
			vGo(func() { sub.Add(func() { counts[i]++ }) })
		}
	}
	vQuiesce()
	vAssert(sub.IsClosed(), "subscription: not closed after a concurrent Unsubscribe returned")
	for i := 0; i < added; i++ {
		vAssert(counts[i] == 1, "subscription: under concurrent Unsubscribe/Add a teardown did not run exactly once")
	}
	vReach("end")
}

func vhC03_subconc_2() { vC03SubConc(2) }
func vhC03_subconc_3() { vC03SubConc(3) }

// C03 at operator level: "a panicking teardown does not stop the others from running; the panic is
// re-raised to the caller of Unsubscribe only after all of them have run".  A multi-source entry over
// hot probes, the teardown of one source (symbolic) panics, the subscription is cut by Unsubscribe.
func vC03MultiPanic() {
	op := &vMCatalog[vChoice("entry", len(vMCatalog))]
	probes := make([]*vProbe, op.nsrc)
	srcs := make([]Observable[int64], op.nsrc)
	for i := range probes {
		probes[i] = &vProbe{name: "src" + vItoa(i)}
		srcs[i] = probes[i]
	}
	which := vChoice("panics", op.nsrc)
	probes[which].panicTeardown = true
	c := &vCtx{src: srcs, L: 2}
	pipe := op.mk(c)
	rec := &vRecorder{}
	returned := false
	var sub Subscription
	vGo(func() {
		sub = pipe(context.Background(), rec)
		returned = true
	})
	vQuiesce()
	if !returned {
		vAssume(false) // operators that wait inside subscribe give no handle to unsubscribe with
	}
	var raised interface{}
	func() {
		defer func() { raised = recover() }()
		sub.Unsubscribe()
	}()
	vQuiesce()
	for i, p := range probes {
		if p.subs == 0 {
			continue
		}
		if i != which {
			vAssert(p.live == 0 && p.maxTorn() == 1, op.name+": a source was not released exactly once although only another source's teardown panicked")
		} else {
			vAssert(p.maxTorn() == 1, op.name+": the panicking teardown did not run exactly once")
		}
	}
	if probes[which].subs > 0 {
		vAssert(raised != nil, op.name+": the panic of a source's teardown was not re-raised to the caller of Unsubscribe")
	}
	vReach("end")
}

func vhC03_multipanic() { vC03MultiPanic() }
