package ro

import "context"

// C05 (concurrent part): two sources driven by free-running threads, each
// playing its own legal script; the final observer yields inside its
// callbacks.  The output must be the definition's output for SOME arrival order
// compatible with each source's own order (all merges of the two scripts are
// tried against the entry's reference model).  Values are distinct constants.

func vMerges(a, b []vMStep) [][]vMStep {
	if len(a) == 0 {
		return [][]vMStep{append([]vMStep{}, b...)}
	}
	if len(b) == 0 {
		return [][]vMStep{append([]vMStep{}, a...)}
	}
	var out [][]vMStep
	for _, r := range vMerges(a[1:], b) {
		out = append(out, append([]vMStep{a[0]}, r...))
	}
	for _, r := range vMerges(a, b[1:]) {
		out = append(out, append([]vMStep{b[0]}, r...))
	}
	return out
}

func vConcScript(src int, maxVals int) []vMStep {
	n := vChoice("n"+vItoa(src), maxVals+1)
	var s []vMStep
	for i := 0; i < n; i++ {
		s = append(s, vMStep{src: src, kind: vkNext, v: int64(10*(src+1) + i)})
	}
	switch vChoice("e"+vItoa(src), 3) {
	case 0:
		s = append(s, vMStep{src: src, kind: vkComplete})
	case 1:
		s = append(s, vMStep{src: src, kind: vkError})
	}
	return s
}

func vEventsEqual(got, want []vEv) bool {
	if len(got) != len(want) {
		return false
	}
	for i := range got {
		if got[i].kind != want[i].kind || len(got[i].vals) != len(want[i].vals) {
			return false
		}
		for j := range got[i].vals {
			if got[i].vals[j] != want[i].vals[j] {
				return false
			}
		}
		if got[i].kind == vkError && vErrCode(got[i].err) != vErrCode(want[i].err) {
			return false
		}
	}
	return true
}

// vSameValueBag: the values carried by the Next notifications, all positions flattened, form the
// same multiset in both traces.
func vSameValueBag(got, want []vEv) bool {
	var a, b []int64
	for _, e := range got {
		if e.kind == vkNext {
			a = append(a, e.vals...)
		}
	}
	for _, e := range want {
		if e.kind == vkNext {
			b = append(b, e.vals...)
		}
	}
	if len(a) != len(b) {
		return false
	}
	used := make([]bool, len(b))
	for _, x := range a {
		ok := false
		for j, y := range b {
			if !used[j] && x == y {
				used[j] = true
				ok = true
				break
			}
		}
		if !ok {
			return false
		}
	}
	return true
}

// vConcSel restricts vC05Conc to the named entries (nil = all two-source entries); used for the
// deeper (P >= 1) jobs, whose schedule space would otherwise exhaust the path budget.
var vConcSel []string

func vC05Conc(maxVals int) {
	op := &vMCatalog[vChoice("entry", len(vMCatalog))]
	if op.nsrc != 2 {
		vAssume(false)
	}
	if vConcSel != nil {
		found := false
		for _, n := range vConcSel {
			if n == op.name {
				found = true
			}
		}
		if !found {
			vAssume(false)
		}
	}
	probes := []*vProbe{{name: "src0"}, {name: "src1"}}
	c := &vCtx{src: []Observable[int64]{probes[0], probes[1]}, L: 2 * maxVals}
	pipe := op.mk(c)
	rec := &vRecorder{yield: true}
	vUseRaw = vChoice("raw", 2) == 1 // a hand-written observer does not mask late notifications
	defer func() { vUseRaw = false }()
	vGo(func() { pipe(context.Background(), rec) })
	vQuiesce()
	if probes[0].subs == 0 || probes[1].subs == 0 {
		vAssume(false) // lazily subscribed sources (concat) are covered by the sequential driver
	}
	scripts := [][]vMStep{vConcScript(0, maxVals), vConcScript(1, maxVals)}
	for i := 0; i < 2; i++ {
		i := i
		vGo(func() {
			for _, s := range scripts[i] {
				vYield() // the other source may run between two emissions
				if probes[i].live > 0 {
					probes[i].emit(vStep{s.kind, s.v})
				}
			}
		})
	}
	vQuiesce()
	vAssert(!rec.overlap, op.name+": callbacks of the final observer overlapped")
	vCheckGrammar(op.name, rec)
	found := false
	for _, order := range vMerges(scripts[0], scripts[1]) {
		if vEventsEqual(rec.evs, op.ref(c, order)) {
			found = true
			break
		}
	}
	class := " [no source fails]"
	for _, sc := range scripts {
		if n := len(sc); n > 0 && sc[n-1].kind == vkError {
			class = " [a source fails]"
		}
	}
	if !found {
		// a finer class for the listed findings: is it only the order / the terminal that no arrival
		// order explains, or do the delivered values themselves (as a multiset) match no arrival order?
		same := false
		for _, order := range vMerges(scripts[0], scripts[1]) {
			if vSameValueBag(rec.evs, op.ref(c, order)) {
				same = true
				break
			}
		}
		if !same {
			class += " {values lost, duplicated or invented}"
		}
	}
	vAssert(found, op.name+": the output under concurrent sources is not the definition's output for any compatible arrival order"+class)
	vReach("end")
}

func vhC05_conc_v1() { vC05Conc(1) }
func vhC05_conc_v2() { vC05Conc(2) }

// second-source-driven operators (notifier / boundary / tick): the place where a flag or a pending
// value is handed from one source's goroutine to the other's
func vhC05_concsel_v1() {
	vConcSel = []string{"TakeUntil", "SkipUntil", "BufferWhen", "WindowWhen+MergeAll", "SampleWhen", "ThrottleWhen"}
	vC05Conc(1)
}
func vhC05_concsel_v2() {
	vConcSel = []string{"TakeUntil", "SkipUntil", "BufferWhen", "WindowWhen+MergeAll", "SampleWhen", "ThrottleWhen"}
	vC05Conc(2)
}

func vhC05_concdbg_v1() {
	vConcSel = []string{"SampleWhen"}
	vC05Conc(1)
}

// the pairing / combining family needs two values per source to show queue and latest-value defects
func vhC05_conczip_v2() {
	vConcSel = []string{"ZipWith1", "Zip2", "Zip", "ZipAll(Just)", "CombineLatestWith1", "MergeWith1", "RaceWith"}
	vC05Conc(2)
}

// C05 (window-when, re-entrant producer): the consumer of the windows feeds the source from inside
// a window's completion callback (a feedback loop in one goroutine).  A value emitted while window
// k is being closed belongs to window k+1; no value may fall between two windows.
func vC05WindowReentrant(n int) {
	src, bnd := &vProbe{name: "src"}, &vProbe{name: "bnd"}
	var windows [][]int64
	closed := 0
	next := int64(1)
	feedAt := vChoice("feedAt", n+1) // the completion of which window feeds the source (n: none)
	var sent []int64
	WindowWhen[int64, int64](bnd)(src).SubscribeWithContext(context.Background(), NewObserver(
		func(w Observable[int64]) {
			idx := len(windows)
			windows = append(windows, nil)
			w.SubscribeWithContext(context.Background(), NewObserver(
				func(v int64) { windows[idx] = append(windows[idx], v) },
				func(error) {},
				func() {
					closed++
					if idx == feedAt && src.live > 0 {
						v := next
						next++
						sent = append(sent, v)
						src.emit(vStep{vkNext, v})
					}
				},
			))
		},
		func(error) {},
		func() {},
	))
	for i := 0; i < n; i++ {
		if vChoice("val"+vItoa(i), 2) == 1 && src.live > 0 {
			v := next
			next++
			sent = append(sent, v)
			src.emit(vStep{vkNext, v})
		}
		if bnd.live > 0 {
			bnd.emit(vStep{vkNext, 0})
		}
	}
	if src.live > 0 {
		src.emit(vStep{kind: vkComplete})
	}
	var flat []int64
	for _, w := range windows {
		flat = append(flat, w...)
	}
	vAssert(len(flat) == len(sent), "WindowWhen: a source value appears in no window (or in two) when the source is fed from inside a window's completion callback")
	for i := range flat {
		vAssert(flat[i] == sent[i], "WindowWhen: the windows do not partition the source values in order")
	}
	vAssert(closed == len(windows), "WindowWhen: a window was never closed")
	vReach("end")
}

func vhC05_windowreentrant_n2() { vC05WindowReentrant(2) }
func vhC05_windowreentrant_n3() { vC05WindowReentrant(3) }
