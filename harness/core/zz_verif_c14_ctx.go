package ro

import (
	"context"
	"time"
)

// C14 (context clause): "Cancelling the subscription context has the same effect on the
// context-aware sources and operators": a context-aware source or operator is subscribed with a
// cancellable context, optionally receives values, then the context is cancelled.  Without any
// further emission: the upstream source is released, the Subscribe call has returned, no library
// goroutine is left, the output obeys the grammar and has terminated.
func vC14Ctx(L int) {
	ctx, cancel := context.WithCancel(context.WithValue(context.Background(), vKeySub, int64(7)))
	p := &vProbe{name: "src"}
	rec := &vRecorder{}
	name := ""
	var pipe vPipeline
	usesProbe := false
	timed := false
	switch vChoice("what", 9) {
	case 0:
		name, usesProbe = "ThrowOnContextCancel", true
		pipe = vPipe(ThrowOnContextCancel[int64]()(p), vFlatInt)
	case 1:
		name = "Interval"
		pipe = vPipe(Interval(time.Hour), vFlatInt)
	case 2:
		name = "IntervalWithInitial"
		pipe = vPipe(IntervalWithInitial(time.Hour, time.Hour), vFlatInt)
	case 3:
		name = "Never"
		pipe = vPipe(Never(), func(struct{}) []int64 { return nil })
	case 4:
		name = "Timer"
		pipe = vPipe(Timer(time.Hour), func(d time.Duration) []int64 { return []int64{int64(d)} })
	case 5:
		name, usesProbe = "RetryWithConfig", true
		pipe = vPipe(RetryWithConfig[int64](RetryConfig{MaxRetries: 2})(p), vFlatInt)
	case 6:
		name, usesProbe, timed = "BufferWithTimeOrCount", true, true
		pipe = vPipe(BufferWithTimeOrCount[int64](2, time.Hour)(p), vFlatSlice)
	case 7:
		name, usesProbe, timed = "BufferWithTime", true, true
		pipe = vPipe(BufferWithTime[int64](time.Hour)(p), vFlatSlice)
	default:
		name, usesProbe, timed = "SampleTime", true, true
		pipe = vPipe(SampleTime[int64](time.Hour)(p), vFlatInt)
	}
	returned := false
	vGo(func() {
		pipe(ctx, rec)
		returned = true
	})
	vQuiesce()
	if usesProbe {
		n := vChoice("n", L+1)
		for i := 0; i < n; i++ {
			if p.live > 0 {
				p.emit(vStep{vkNext, vInt64("v" + vItoa(i))})
			}
			vQuiesce()
		}
	}
	before := len(rec.evs)
	cancel()
	vQuiesce()
	if timed {
		// C16: time-driven operators fall silent after context cancellation — a source that does
		// not end by itself on cancellation keeps emitting, two periods pass
		if p.live > 0 {
			p.emit(vStep{vkNext, 99})
		}
		vAdvance(int64(2 * time.Hour))
		vQuiesce()
		nexts := 0
		for _, e := range rec.evs[before:] {
			if e.kind == vkNext {
				nexts++
			}
		}
		// the buffering operators flush what they hold when their ticker ends with the context
		vAssert(nexts <= 1, name+": values were still delivered long after the subscription context was cancelled")
	}
	vCheckGrammar(name, rec)
	vAssert(rec.terminals() == 1, name+": the output did not terminate when the subscription context was cancelled")
	if !timed {
		vAssert(len(rec.evs) == before+1, name+": something other than the terminal was delivered after the cancellation")
	}
	if usesProbe {
		vAssert(p.live == 0, name+": the source is still subscribed after the subscription context was cancelled")
	}
	vAssert(returned, name+": the Subscribe call is still running after the subscription context was cancelled")
	run, blk := vLive()
	vAssert(run+blk == 0, name+": a library goroutine is left after the subscription context was cancelled")
	for _, e := range rec.evs {
		vAssert(e.ctx != nil, name+": a callback was invoked with a nil context")
		m, ok := e.ctx.Value(vKeySub).(int64)
		vAssert(ok && m == 7, name+": a context value attached at subscription is lost")
	}
	vReach("end")
}

func vhC14_ctx_L1() { vC14Ctx(1) }
func vhC14_ctx_L2() { vC14Ctx(2) }

// C09 (error raised by a context operator): ThrowOnContextCancel re-checks the item's context
// after delivering it; an item context cancelled while the downstream Next runs ends the stream
// with an Error whose context must still be the item's (upstream values visible downstream "for
// values, errors and completion alike").
func vC09Cancel(L int) {
	base := context.WithValue(context.Background(), vKeySub, int64(7))
	p := &vProbe{name: "src"}
	rec := &vRecorder{}
	var cancels []context.CancelFunc
	cancelAt := vChoice("cancelAt", L)
	rec.hook = func(r *vRecorder, kind int, idx int) {
		if kind == vkNext && idx == cancelAt && idx < len(cancels) {
			cancels[idx]() // the item's own context expires while the observer handles it
		}
	}
	ThrowOnContextCancel[int64]()(p).SubscribeWithContext(base, vObs(rec, vFlatInt))
	vQuiesce()
	for i := 0; i < L; i++ {
		if p.live == 0 {
			break
		}
		ictx, cancel := context.WithCancel(context.WithValue(p.ctxs[0], vKeyItem, int64(100+i)))
		cancels = append(cancels, cancel)
		vEmit(p.dests[0], ictx, vStep{vkNext, int64(i)})
		vQuiesce()
	}
	vCheckGrammar("ThrowOnContextCancel", rec)
	vAssert(rec.terminals() == 1 && rec.evs[len(rec.evs)-1].kind == vkError, "ThrowOnContextCancel: no Error although an item's context was cancelled during its delivery")
	last := rec.evs[len(rec.evs)-1]
	vAssert(last.ctx != nil, "ThrowOnContextCancel: a callback was invoked with a nil context")
	m, ok := last.ctx.Value(vKeySub).(int64)
	vAssert(ok && m == 7, "ThrowOnContextCancel: a context value attached at subscription is lost on the Error")
	it, ok := last.ctx.Value(vKeyItem).(int64)
	vAssert(ok && it == int64(100+cancelAt), "ThrowOnContextCancel: the Error raised for an item does not carry that item's context (value attached upstream lost)")
	vAssert(p.live == 0, "ThrowOnContextCancel: the source is still subscribed after the Error")
	vReach("end")
}

func vhC09_cancel_L2() { vC09Cancel(2) }
func vhC09_cancel_L3() { vC09Cancel(3) }

// C02 (context-driven operators with a hidden goroutine): the subscription context is cancelled
// from another thread while the observer is inside a Next callback; the Error raised by the
// operator's watcher goroutine must not run at the same time as that callback.
func vC02Ctx(n int) {
	ctx, cancel := context.WithCancel(context.Background())
	p := &vProbe{name: "src"}
	rec := &vRecorder{name: "x", yield: true, quiet: true}
	ThrowOnContextCancel[int64]()(p).SubscribeWithContext(ctx, vObs(rec, vFlatInt))
	vQuiesce()
	vGo(func() {
		for i := 0; i < n; i++ {
			if p.live > 0 {
				p.emit(vStep{vkNext, int64(i)})
			}
		}
	})
	vGo(func() { cancel() })
	vQuiesce()
	vAssert(!rec.overlap, "ThrowOnContextCancel: callbacks of one observer overlapped (cancellation against a delivery in progress)")
	vCheckGrammar("ThrowOnContextCancel", rec)
	vAssert(rec.terminals() == 1, "ThrowOnContextCancel: the output did not terminate when the subscription context was cancelled")
	vAssert(p.live == 0, "ThrowOnContextCancel: the source is still subscribed after the subscription context was cancelled")
	vReach("end")
}

func vhC02_ctx_n1() { vC02Ctx(1) }
func vhC02_ctx_n2() { vC02Ctx(2) }
