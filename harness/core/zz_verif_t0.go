package ro

import "context"

// first smoke harness: Take(n) over Just(a,b,c)
func vhT0_take() {
	a, b, c := vInt64("a"), vInt64("b"), vInt64("c")
	n := vInt64("n")
	vAssume(n >= 0 && n <= 4)
	var got []int64
	done := 0
	sub := Pipe1(Just(a, b, c), Take[int64](n)).SubscribeWithContext(context.Background(), NewObserver(
		func(v int64) { got = append(got, v) },
		func(err error) { done += 10 },
		func() { done++ },
	))
	_ = sub
	vAssert(done == 1, "completed once")
	want := n
	if want > 3 {
		want = 3
	}
	vAssert(int64(len(got)) == want, "len")
	if len(got) > 0 {
		vAssert(got[0] == a, "first")
	}
	if len(got) > 2 {
		vAssert(got[2] == c, "third")
	}
	vReach("end")
}
