package ro

// Further multi-source catalogue entries for the C05 driver (vC05Multi).
//
// Reference models are written from the C05 statement ("each source's values keep
// their order, nothing is lost or duplicated, completion comes exactly when the
// definition says (merge after all sources, zip once a finished source's queue is
// drained, race mirroring the first source to notify, concat subscribing to the next
// source only after the previous completed), and an error from any source ends the
// output at once and releases the others"), from the behaviour pinned by the repo's
// own tests / examples and from the doc comments.  Where these leave a case open the
// path is dropped inside ref with vAssume(false) and a comment says so.

import (
	"github.com/samber/lo"
)

func vmFlatT3(t lo.Tuple3[int64, int64, int64]) []int64 { return []int64{t.A, t.B, t.C} }

// ---------------------------------------------------------------------------
// shared reference models, parameterised by the number of sources

// merge: every value is passed on as it arrives; completion after all n sources.
func vmRefMerge(n int) func(c *vCtx, steps []vMStep) []vEv {
	return func(c *vCtx, steps []vMStep) []vEv {
		var out []vEv
		done := 0
		for _, s := range steps {
			switch s.kind {
			case vkNext:
				out = append(out, vN(s.v))
			case vkError:
				return append(out, vE(vErrA))
			default:
				done++
				if done == n {
					return append(out, vC())
				}
			}
		}
		return out
	}
}

// concat: only the current source is subscribed; the next one is subscribed once
// the current one has completed (steps for a not yet subscribed source are pruned
// by the driver and never reach the reference).
func vmRefConcat(n int) func(c *vCtx, steps []vMStep) []vEv {
	return func(c *vCtx, steps []vMStep) []vEv {
		var out []vEv
		cur := 0
		for _, s := range steps {
			if s.src != cur {
				continue
			}
			switch s.kind {
			case vkNext:
				out = append(out, vN(s.v))
			case vkError:
				return append(out, vE(vErrA))
			default:
				cur++
				if cur == n {
					return append(out, vC())
				}
			}
		}
		return out
	}
}

// combine-latest: once every source has emitted, each arrival emits the tuple of
// latest values; completion after all n sources (same convention as the
// CombineLatestWith1 entry; TestOperatorCombiningCombineLatestWith1 pins that the
// output goes on after the first source to finish has finished).
// slice: the output is a []int64 (flattened as length followed by the values).
func vmRefCombine(n int, slice bool) func(c *vCtx, steps []vMStep) []vEv {
	return func(c *vCtx, steps []vMStep) []vEv {
		var out []vEv
		last := make([]int64, n)
		has := make([]bool, n)
		nhas, done := 0, 0
		for _, s := range steps {
			switch s.kind {
			case vkNext:
				if !has[s.src] {
					has[s.src] = true
					nhas++
				}
				last[s.src] = s.v
				if nhas == n {
					cp := append([]int64(nil), last...)
					if slice {
						out = append(out, vN(vFlatSlice(cp)...))
					} else {
						out = append(out, vN(cp...))
					}
				}
			case vkError:
				return append(out, vE(vErrA))
			default:
				done++
				if done == n {
					return append(out, vC())
				}
			}
		}
		return out
	}
}

// zip: the i-th values are put together; completion once a finished source's queue
// is drained.
func vmRefZip(n int, slice bool) func(c *vCtx, steps []vMStep) []vEv {
	return func(c *vCtx, steps []vMStep) []vEv {
		var out []vEv
		q := make([][]int64, n)
		fin := make([]bool, n)
		for _, s := range steps {
			switch s.kind {
			case vkNext:
				q[s.src] = append(q[s.src], s.v)
				all := true
				for i := 0; i < n; i++ {
					if len(q[i]) == 0 {
						all = false
					}
				}
				if all {
					t := make([]int64, n)
					for i := 0; i < n; i++ {
						t[i] = q[i][0]
						q[i] = q[i][1:]
					}
					if slice {
						out = append(out, vN(vFlatSlice(t)...))
					} else {
						out = append(out, vN(t...))
					}
				}
			case vkError:
				return append(out, vE(vErrA))
			default:
				fin[s.src] = true
			}
			for i := 0; i < n; i++ {
				if fin[i] && len(q[i]) == 0 {
					return append(out, vC())
				}
			}
		}
		return out
	}
}

// race: mirrors the first source to notify (with a value, an error or its completion).
func vmRefRace(c *vCtx, steps []vMStep) []vEv {
	var out []vEv
	won := -1
	for _, s := range steps {
		if won == -1 {
			won = s.src
		}
		if s.src != won {
			continue
		}
		switch s.kind {
		case vkNext:
			out = append(out, vN(s.v))
		case vkError:
			return append(out, vE(vErrA))
		default:
			return append(out, vC())
		}
	}
	return out
}

// merge-map over src[0] with the projection
//
//	index 0 -> src[1], index 1 -> src[2], index >= 2 -> Of(item)
//
// (each probe is selected at most once, so it has a single subscriber).  The values
// of every inner observable are passed on as they arrive; completion after the outer
// source and every inner observable subscribed so far have completed.
func vmProject(c *vCtx) func(v int64, i int64) Observable[int64] {
	return func(v int64, i int64) Observable[int64] {
		switch i {
		case 0:
			return c.src[1]
		case 1:
			return c.src[2]
		}
		return Of(v)
	}
}

func vmRefMergeMap(c *vCtx, steps []vMStep) []vEv {
	var out []vEv
	idx := 0
	active := 0 // inner observables subscribed and not completed
	outerDone := false
	for _, s := range steps {
		if s.kind == vkError {
			return append(out, vE(vErrA))
		}
		if s.src == 0 {
			if s.kind == vkNext {
				if idx < 2 {
					active++ // src[1+idx] gets subscribed
				} else {
					out = append(out, vN(s.v)) // Of(item): emits and completes at once
				}
				idx++
			} else {
				outerDone = true
			}
		} else {
			if s.kind == vkNext {
				out = append(out, vN(s.v))
			} else {
				active--
			}
		}
		if outerDone && active == 0 {
			return append(out, vC())
		}
	}
	return out
}

var vMCatalogMore = []vMOp{
	// ---- merge ------------------------------------------------------------
	{name: "MergeWith2", nsrc: 3,
		mk:  func(c *vCtx) vPipeline { return vPipe(MergeWith2(c.src[1], c.src[2])(c.src[0]), vFlatInt) },
		ref: vmRefMerge(3)},
	{name: "Merge", nsrc: 2,
		mk:  func(c *vCtx) vPipeline { return vPipe(Merge(c.src[0], c.src[1]), vFlatInt) },
		ref: vmRefMerge(2)},
	{name: "MergeAll(Just)", nsrc: 2,
		mk: func(c *vCtx) vPipeline {
			return vPipe(MergeAll[int64]()(Just(c.src[0], c.src[1])), vFlatInt)
		},
		ref: vmRefMerge(2)},

	// ---- concat -----------------------------------------------------------
	{name: "ConcatAll(Just)", nsrc: 2,
		mk: func(c *vCtx) vPipeline {
			return vPipe(ConcatAll[int64]()(Just(c.src[0], c.src[1])), vFlatInt)
		},
		ref: vmRefConcat(2)},
	{name: "Concat", nsrc: 2,
		mk:  func(c *vCtx) vPipeline { return vPipe(Concat(c.src[0], c.src[1]), vFlatInt) },
		ref: vmRefConcat(2)},

	// ---- combine-latest ---------------------------------------------------
	{name: "CombineLatestWith2", nsrc: 3,
		mk: func(c *vCtx) vPipeline {
			return vPipe(CombineLatestWith2[int64](c.src[1], c.src[2])(c.src[0]), vmFlatT3)
		},
		ref: vmRefCombine(3, false)},
	{name: "CombineLatest2", nsrc: 2,
		mk:  func(c *vCtx) vPipeline { return vPipe(CombineLatest2(c.src[0], c.src[1]), vFlatT2) },
		ref: vmRefCombine(2, false)},
	{name: "CombineLatestAll(Just)", nsrc: 2,
		mk: func(c *vCtx) vPipeline {
			return vPipe(CombineLatestAll[int64]()(Just(c.src[0], c.src[1])), vFlatSlice)
		},
		ref: vmRefCombine(2, true)},

	// ---- zip --------------------------------------------------------------
	{name: "ZipWith2", nsrc: 3,
		mk: func(c *vCtx) vPipeline {
			return vPipe(ZipWith2[int64](c.src[1], c.src[2])(c.src[0]), vmFlatT3)
		},
		ref: vmRefZip(3, false)},
	{name: "Zip2", nsrc: 2,
		mk:  func(c *vCtx) vPipeline { return vPipe(Zip2(c.src[0], c.src[1]), vFlatT2) },
		ref: vmRefZip(2, false)},
	{name: "Zip", nsrc: 2,
		mk:  func(c *vCtx) vPipeline { return vPipe(Zip(c.src[0], c.src[1]), vFlatSlice) },
		ref: vmRefZip(2, true)},
	{name: "ZipAll(Just)", nsrc: 2,
		mk: func(c *vCtx) vPipeline {
			return vPipe(ZipAll[int64]()(Just(c.src[0], c.src[1])), vFlatSlice)
		},
		ref: vmRefZip(2, true)},

	// ---- race -------------------------------------------------------------
	{name: "Race", nsrc: 2,
		mk:  func(c *vCtx) vPipeline { return vPipe(Race(c.src[0], c.src[1]), vFlatInt) },
		ref: vmRefRace},
	{name: "Amb", nsrc: 2,
		mk:  func(c *vCtx) vPipeline { return vPipe(Amb(c.src[0], c.src[1]), vFlatInt) },
		ref: vmRefRace},
	{name: "RaceWith(2 more)", nsrc: 3,
		mk:  func(c *vCtx) vPipeline { return vPipe(RaceWith(c.src[1], c.src[2])(c.src[0]), vFlatInt) },
		ref: vmRefRace},

	// ---- sequence-equal -----------------------------------------------------
	{name: "SequenceEqual", nsrc: 2,
		mk: func(c *vCtx) vPipeline { return vPipe(SequenceEqual(c.src[1])(c.src[0]), vFlatBool) },
		ref: func(c *vCtx, steps []vMStep) []vEv {
			// "determines whether two observable sequences are equal by comparing the
			// elements pairwise".  The i-th values are compared once both are there.
			//  * both complete with the same number of values, all pairs equal: true, complete
			//    (TestOperatorConditionalSequenceEqual / docs page)
			//  * a pair differs: false, complete — emitted as soon as the pair is known
			//    (ReactiveX convention; the repo's sources only show the final result)
			//  * an error from either source before the verdict: that error, at once
			//  * sequences of different lengths: the unit test pins Empty vs Just(1,2,3) and
			//    Just(1,2,3) vs Empty to TRUE, the docs page (core-sequenceequal.md,
			//    "With different length sequences") says FALSE: left open — every path on
			//    which one source has completed with n values while the other has (or gets)
			//    n values or more without completing with exactly n is dropped.
			var q [2][]int64
			var cnt [2]int
			var fin [2]bool
			waiting := false // one source completed with n values, the other has n and is still open
			for _, s := range steps {
				if waiting {
					// by the definition nothing can be said before the other source ends (true) or
					// goes on (false); a zip-style reading says true already.  Only the path on
					// which the other source now completes has the same output either way.
					if s.kind != vkComplete {
						vAssume(false)
					}
					return []vEv{vN(1), vC()}
				}
				switch s.kind {
				case vkNext:
					q[s.src] = append(q[s.src], s.v)
					cnt[s.src]++
					if len(q[0]) > 0 && len(q[1]) > 0 {
						a, b := q[0][0], q[1][0]
						q[0], q[1] = q[0][1:], q[1][1:]
						if a != b {
							return []vEv{vN(0), vC()}
						}
					}
				case vkError:
					return []vEv{vE(vErrA)}
				default:
					fin[s.src] = true
				}
				if fin[0] && fin[1] {
					if cnt[0] != cnt[1] {
						vAssume(false) // different lengths: open (see above)
					}
					return []vEv{vN(1), vC()}
				}
				for i := 0; i < 2; i++ {
					if fin[i] && cnt[1-i] > cnt[i] {
						vAssume(false) // different lengths: open
					}
					if fin[i] && cnt[1-i] == cnt[i] {
						waiting = true
					}
				}
			}
			if waiting {
				vAssume(false) // output open between nothing and (true, complete)
			}
			return nil
		}},

	// ---- buffer / window / sample / throttle -when -------------------------------
	{name: "BufferWhen", nsrc: 2,
		mk: func(c *vCtx) vPipeline { return vPipe(BufferWhen[int64](c.src[1])(c.src[0]), vFlatSlice) },
		ref: func(c *vCtx, steps []vMStep) []vEv {
			// source 0 = values, source 1 = boundary.
			//  * boundary value: the buffer is emitted (even when empty:
			//    TestOperatorTransformationBufferWithTime expects {{}, {1}, {2}}) and a new one started
			//  * source completion: the buffer is emitted (even when empty: the test expects
			//    {{}} for Empty()), then completion
			//  * boundary completion: "the buffer is emitted and the source Observable
			//    completes" (doc comment; the test expects {{}} and no error for BufferWhen(Empty()))
			//  * an error from either side: the error alone, at once.  The property says an error
			//    ends the output at once; TestOperatorTransformationBufferWhen / ExampleBufferWhen_error
			//    expect {} (not {{}}) before the error of Throw(), although on completion the
			//    empty buffer IS emitted — so the pending buffer is not flushed by an error
			//    (as in ExampleBufferWithCount_error).  NB the doc comment's "If the source
			//    Observable errors, the buffer is emitted and the error is propagated" disagrees
			//    with that test; the test and the property rank higher.
			var out []vEv
			var buf []int64
			for _, s := range steps {
				switch s.kind {
				case vkNext:
					if s.src == 0 {
						buf = append(buf, s.v)
					} else {
						out = append(out, vN(vFlatSlice(buf)...))
						buf = nil
					}
				case vkError:
					return append(out, vE(vErrA))
				default:
					out = append(out, vN(vFlatSlice(buf)...))
					return append(out, vC())
				}
			}
			return out
		}},
	{name: "WindowWhen+MergeAll", nsrc: 2,
		mk: func(c *vCtx) vPipeline {
			return vPipe(MergeAll[int64]()(WindowWhen[int64](c.src[1])(c.src[0])), vFlatInt)
		},
		ref: func(c *vCtx, steps []vMStep) []vEv {
			// flattened windows: every source value comes out once, in order, whatever the
			// boundary does; the source's completion / error ends the output; so does the
			// boundary's completion ("If the boundary Observable completes, the window emits
			// the complete notification and the complete notification is propagated") and the
			// boundary's error (an error from any source ends the output at once).
			var out []vEv
			for _, s := range steps {
				switch s.kind {
				case vkNext:
					if s.src == 0 {
						out = append(out, vN(s.v))
					}
				case vkError:
					return append(out, vE(vErrA))
				default:
					return append(out, vC())
				}
			}
			return out
		}},
	{name: "SampleWhen", nsrc: 2,
		mk: func(c *vCtx) vPipeline { return vPipe(SampleWhen[int64](c.src[1])(c.src[0]), vFlatInt) },
		ref: func(c *vCtx, steps []vMStep) []vEv {
			// a tick emits the most recent source value if there has been one since the
			// previous tick (doc comment; test: {2, 5}); the source's completion completes
			// the output without emitting the pending value (test: Timer(50ms) sampled
			// every 100ms -> {}); an error from either side ends the output.
			// The tick observable's completion: the only pinned case (SampleWhen(Empty()) ->
			// {} and no error) is compatible both with "completes the output" and with
			// "nothing happens": left open (paths dropped).
			var out []vEv
			var last int64
			has := false
			for _, s := range steps {
				switch s.kind {
				case vkNext:
					if s.src == 0 {
						last, has = s.v, true
					} else if has {
						out = append(out, vN(last))
						has = false
					}
				case vkError:
					return append(out, vE(vErrA))
				default:
					if s.src == 1 {
						vAssume(false) // tick completion: open
					}
					return append(out, vC())
				}
			}
			return out
		}},
	{name: "ThrottleWhen", nsrc: 2,
		mk: func(c *vCtx) vPipeline { return vPipe(ThrottleWhen[int64](c.src[1])(c.src[0]), vFlatInt) },
		ref: func(c *vCtx, steps []vMStep) []vEv {
			// pinned by TestOperatorTransformationThrottleWhen (values 1..7 every 100ms, ticks
			// every 275ms -> {3, 6}): the gate starts closed, a tick opens it, the next source
			// value passes and closes it again.  Source completion / error and tick error end
			// the output.  The tick observable's completion (pinned only by ThrottleWhen(Empty())
			// -> {} and no error): left open (paths dropped).
			var out []vEv
			open := false
			for _, s := range steps {
				switch s.kind {
				case vkNext:
					if s.src == 1 {
						open = true
					} else if open {
						out = append(out, vN(s.v))
						open = false
					}
				case vkError:
					return append(out, vE(vErrA))
				default:
					if s.src == 1 {
						vAssume(false) // tick completion: open
					}
					return append(out, vC())
				}
			}
			return out
		}},

	// ---- merge-map / flat-map -------------------------------------------------
	{name: "MergeMapI(probes)", nsrc: 3,
		mk:  func(c *vCtx) vPipeline { return vPipe(MergeMapI(vmProject(c))(c.src[0]), vFlatInt) },
		ref: vmRefMergeMap},
	// FlatMap: "transforms the items emitted by an Observable into Observables, then
	// flatten the emissions from those into a single Observable"; docs page
	// core-flatmap.md: "Order may vary due to interleaving", listed next to MergeMap;
	// C05 lists flat-map with merge-map; ReactiveX: flatMap = mergeMap.
	{name: "FlatMapI(probes)", nsrc: 3,
		mk:  func(c *vCtx) vPipeline { return vPipe(FlatMapI(vmProject(c))(c.src[0]), vFlatInt) },
		ref: vmRefMergeMap},
}

func init() { vMCatalog = append(vMCatalog, vMCatalogMore...) }
