package ro

// Catalogue batch "creation": source-less creation operators
// (operator_creation.go, nsrc: 0 — the reference ignores the input script) and
// the error-handling / context single-source operators
// (operator_error_handling.go, operator_context.go), T=int64.
//
// Reference models are written from the doc comments, docs/data/core-*.md and
// the behaviour pinned by operator_creation_test.go,
// operator_error_handling_test.go, operator_context_test.go and the Example*
// functions of ro_example_test.go (sources quoted per model); they are not
// transcriptions of the implementation.  Source errors are vErrA (code 1),
// errors produced by user callbacks are vErrB (code 2).
//
// Not in this batch: RangeWithStep / RangeWithStepAndInterval (float64
// signatures only: no floating point in the harness), Timer / Interval* /
// *WithInterval (time), FromChannel (channel), Future, Rand*; Iif, Retry*,
// RepeatWith, Timestamp / TimeInterval are covered by other batches;
// DefaultIfEmptyWithContext is excluded by design.

import "context"

func vFlatUnit(struct{}) []int64 { return nil }

// vFlatPair flattens {value, what the downstream callback saw in its context}.
func vFlatPair(p [2]int64) []int64 { return []int64{p[0], p[1]} }

// vSeeMid is appended downstream of a context operator: every item is paired
// with the value found under vKeyMid in the context its Next callback received
// (-1 when the key is absent or holds something else).
func vSeeMid(o Observable[int64]) Observable[[2]int64] {
	return MapWithContext(func(ctx context.Context, v int64) (context.Context, [2]int64) {
		seen := int64(-1)
		if ctx != nil {
			if m, ok := ctx.Value(vKeyMid).(int64); ok {
				seen = m
			}
		}
		return ctx, [2]int64{v, seen}
	})(o)
}

// vRefSeen: the source's values, each paired with seen(i), then its terminal.
func vRefSeen(in []vStep, seen func(i int) int64) []vEv {
	var out []vEv
	for i, v := range vVals(in) {
		out = append(out, vN(v, seen(i)))
	}
	return vTail(out, in)
}

// vRangeParams draws Range's arguments: start is free over the whole int64
// range, end-start (the mathematical difference, no wrap-around) lies in
// [-(L+1), L+1].  Starts and ends next to MinInt64 / MaxInt64 stay reachable.
func vRangeParams(c *vCtx) (start, end int64) {
	start = vInt64("start")
	d := vInt64("d")
	vAssume(d >= -(int64(c.L) + 1))
	vAssume(d <= int64(c.L)+1)
	end = start + d
	// no wrap-around: end lies on the side of start that the sign of d says
	vAssume(vIte(d >= 0, vIte(end >= start, 1, 0), vIte(end < start, 1, 0)) == 1)
	c.p[0], c.p[1] = start, d
	return start, end
}

var vCatalogCreation = []vOp{
	// ---- Entries that do not run clean on the unchanged tree come first, on
	// purpose (the engine explores the entry choice from the highest index down
	// and stops a harness after 40 non-OK paths):
	//   Range:               C04 (descending range whose end is MinInt64)
	//   Catch, ThrowIfEmpty: C07 (the callback runs in error / completion position:
	//                        a panic there is swallowed, same defect as the Tap family)
	//   ContextReset*:       C09 only, by definition (documented context reset; the
	//                        C09 walk has to skip them by name like DefaultIfEmpty)

	// Range: "The range is [start:end), so `start` is emitted but not `end`. If
	// `start` is equal to `end`, an empty Observable is returned. If `start` is
	// greater than `end`, the emitted values are in descending order. The step
	// is 1." (TestOperatorCreationRange: (1,5) -> [1 2 3 4]; (5,5) -> []; (5,1) ->
	// [5 4 3 2]; ExampleRange (0,5) -> 0..4.)  docs/data/core-range.md shows a
	// closed range (Range(1,5) -> 1..5, Range(5,5) -> 5): it contradicts both the
	// doc comment and the two pinned tests, which rank higher.
	{name: "Range", nsrc: 0,
		mk: func(c *vCtx) vPipeline {
			start, end := vRangeParams(c)
			return vPipe(Range(start, end), vFlatInt)
		},
		ref: func(c *vCtx, in []vStep) []vEv {
			start, d := c.p[0], c.p[1]
			var out []vEv
			if d >= 0 {
				for i := int64(0); i < d; i++ {
					out = append(out, vN(start+i))
				}
			} else {
				for i := int64(0); i < -d; i++ {
					out = append(out, vN(start-i))
				}
			}
			return append(out, vC())
		}},

	// Catch: "catches errors on the observable to be handled by returning a new
	// observable or throwing an error": the values before the error, then the
	// observable returned by the handler takes over, terminal included
	// (ExampleCatch, TestOperatorErrorHandlingCatch: no error -> the handler is
	// never called; core-catch.md "Re-throw other errors": ro.Throw(err)).
	{name: "Catch", nsrc: 1, cbs: []string{"h"},
		mk: func(c *vCtx) vPipeline {
			x := vInt64("x")
			c.p[0] = x
			return vPipe(Catch(func(err error) Observable[int64] {
				vFP("h")
				if vUFBool("hc", vErrCode(err)) {
					return Just(x)
				}
				return Throw[int64](vErrB)
			})(c.src[0]), vFlatInt)
		},
		ref: func(c *vCtx, in []vStep) []vEv {
			var out []vEv
			for _, v := range vVals(in) {
				out = append(out, vN(v))
			}
			switch vEnd(in) {
			case vkComplete:
				out = append(out, vC())
			case vkError:
				if vUFBool("hc", 1) {
					out = append(out, vN(c.p[0]), vC())
				} else {
					out = append(out, vE(vErrB))
				}
			}
			return out
		}},

	// ThrowIfEmpty: "throws an error if the source observable is empty. It will
	// throw the error returned by the throw function ... If the source observable
	// emits an error, it will propagate the error" (TestOperatorErrorHandlingThrowIfEmpty:
	// Of(1,2,3) -> [1 2 3] and the callback is never called; core-throwifempty.md
	// "otherwise emits all items normally").
	{name: "ThrowIfEmpty", nsrc: 1, cbs: []string{"t"},
		mk: func(c *vCtx) vPipeline {
			return vPipe(ThrowIfEmpty[int64](func() error { vFP("t"); return vErrB })(c.src[0]), vFlatInt)
		},
		ref: func(c *vCtx, in []vStep) []vEv {
			var out []vEv
			for _, v := range vVals(in) {
				out = append(out, vN(v))
			}
			if len(out) == 0 && vEnd(in) == vkComplete {
				return []vEv{vE(vErrB)}
			}
			return vTail(out, in)
		}},

	// ContextReset: "emits the same items as the source Observable, but with a
	// new context. If the new context is nil, it uses context.Background()"
	// (TestOperatorContextContextReset: downstream sees the new context's values).
	// NOTE: by definition this entry drops the value attached at subscription, so
	// C09's catalogue walk must skip it by name (as it does for DefaultIfEmpty).
	{name: "ContextReset", nsrc: 1,
		mk: func(c *vCtx) vPipeline {
			m := vInt64("mid")
			c.p[0] = m
			return vPipe(vSeeMid(ContextReset[int64](context.WithValue(context.Background(), vKeyMid, m))(c.src[0])), vFlatPair)
		},
		ref: func(c *vCtx, in []vStep) []vEv { return vRefSeen(in, func(int) int64 { return c.p[0] }) }},
	{name: "ContextReset_nil", nsrc: 1,
		mk: func(c *vCtx) vPipeline {
			return vPipe(vSeeMid(ContextReset[int64](nil)(c.src[0])), vFlatPair)
		},
		ref: func(c *vCtx, in []vStep) []vEv { return vRefSeen(in, func(int) int64 { return -1 }) }},

	// ======================================================================
	// source-less creation operators
	// ======================================================================

	// Of: "emits some values you specify", in order, then completes
	// (TestOperatorCreationOf: Of(1,2,3) -> [1 2 3]; Of() -> [] without error; ExampleOf).
	{name: "Of", nsrc: 0,
		mk: func(c *vCtx) vPipeline {
			c.p[0], c.p[1], c.p[2] = vInt64("a"), vInt64("b"), vInt64("c")
			return vPipe(Of(c.p[0], c.p[1], c.p[2]), vFlatInt)
		},
		ref: func(c *vCtx, in []vStep) []vEv { return []vEv{vN(c.p[0]), vN(c.p[1]), vN(c.p[2]), vC()} }},
	{name: "Of_one", nsrc: 0,
		mk: func(c *vCtx) vPipeline {
			c.p[0] = vInt64("a")
			return vPipe(Of(c.p[0]), vFlatInt)
		},
		ref: func(c *vCtx, in []vStep) []vEv { return []vEv{vN(c.p[0]), vC()} }},
	{name: "Of_none", nsrc: 0,
		mk:  func(c *vCtx) vPipeline { return vPipe(Of[int64](), vFlatInt) },
		ref: func(c *vCtx, in []vStep) []vEv { return []vEv{vC()} }},
	// Just "is an alias for Of" (TestOperatorCreationJust: Just[int]() -> []).
	{name: "Just_none", nsrc: 0,
		mk:  func(c *vCtx) vPipeline { return vPipe(Just[int64](), vFlatInt) },
		ref: func(c *vCtx, in []vStep) []vEv { return []vEv{vC()} }},

	// FromSlice: "The values are emitted in the order they are in the slice";
	// several slices are emitted one after the other
	// (TestOperatorCreationFromSlice: ([1 2 3],[4 5 6]) -> [1..6]; ([]) -> []).
	{name: "FromSlice", nsrc: 0,
		mk: func(c *vCtx) vPipeline {
			c.p[0], c.p[1] = vInt64("a"), vInt64("b")
			return vPipe(FromSlice([]int64{c.p[0], c.p[1]}), vFlatInt)
		},
		ref: func(c *vCtx, in []vStep) []vEv { return []vEv{vN(c.p[0]), vN(c.p[1]), vC()} }},
	{name: "FromSlice_two", nsrc: 0,
		mk: func(c *vCtx) vPipeline {
			c.p[0], c.p[1], c.p[2] = vInt64("a"), vInt64("b"), vInt64("c")
			return vPipe(FromSlice([]int64{c.p[0]}, []int64{c.p[1], c.p[2]}), vFlatInt)
		},
		ref: func(c *vCtx, in []vStep) []vEv { return []vEv{vN(c.p[0]), vN(c.p[1]), vN(c.p[2]), vC()} }},
	{name: "FromSlice_emptyFirst", nsrc: 0,
		mk: func(c *vCtx) vPipeline {
			c.p[0] = vInt64("a")
			return vPipe(FromSlice([]int64{}, []int64{c.p[0]}, nil), vFlatInt)
		},
		ref: func(c *vCtx, in []vStep) []vEv { return []vEv{vN(c.p[0]), vC()} }},
	{name: "FromSlice_none", nsrc: 0,
		mk:  func(c *vCtx) vPipeline { return vPipe(FromSlice[int64](), vFlatInt) },
		ref: func(c *vCtx, in []vStep) []vEv { return []vEv{vC()} }},

	// Empty: "emits no values and completes immediately" (TestOperatorCreationEmpty).
	{name: "Empty", nsrc: 0,
		mk:  func(c *vCtx) vPipeline { return vPipe(Empty[int64](), vFlatInt) },
		ref: func(c *vCtx, in []vStep) []vEv { return []vEv{vC()} }},

	// Throw: "emits an error" and nothing else (TestOperatorCreationThrown, ExampleThrow).
	{name: "Throw", nsrc: 0,
		mk:  func(c *vCtx) vPipeline { return vPipe(Throw[int64](vErrA), vFlatInt) },
		ref: func(c *vCtx, in []vStep) []vEv { return []vEv{vE(vErrA)} }},

	// Never: "emits no values and never completes" (TestOperatorCreationNever:
	// no callback runs while the subscription is open).
	{name: "Never", nsrc: 0,
		mk:  func(c *vCtx) vPipeline { return vPipe(Never(), vFlatUnit) },
		ref: func(c *vCtx, in []vStep) []vEv { return nil }},

	// Start: "emits lazily a single value": the callback's result, then
	// completion (TestOperatorCreationStart, ExampleStart); core-start.md: "the
	// result of an action function for each subscriber" — the callback runs
	// once per subscription, never at construction time.
	{name: "Start", nsrc: 0, cbs: []string{"s"},
		mk: func(c *vCtx) vPipeline {
			calls := 0
			obs := Start(func() int64 { vFP("s"); calls++; return vUFInt("s", 0) })
			vAssert(calls == 0, "Start: the callback was invoked at construction time")
			pipe := vPipe(obs, vFlatInt)
			return func(ctx context.Context, rec *vRecorder) Subscription {
				before := calls
				sub := pipe(ctx, rec)
				vAssert(calls == before+1, "Start: the callback was not invoked exactly once for the subscription")
				return sub
			}
		},
		ref: func(c *vCtx, in []vStep) []vEv { return []vEv{vN(vUFInt("s", 0)), vC()} }},

	// Defer: "waits until an Observer subscribes to it, and then it creates an
	// Observable for each Observer ... The `cb` function is called for each
	// Observer that subscribes" (TestOperatorCreationDefer: Of(1,2,3) -> [1 2 3];
	// Throw -> the error).
	{name: "Defer", nsrc: 0, cbs: []string{"d"},
		mk: func(c *vCtx) vPipeline {
			c.p[0], c.p[1] = vInt64("a"), vInt64("b")
			a, b := c.p[0], c.p[1]
			calls := 0
			obs := Defer(func() Observable[int64] { vFP("d"); calls++; return Just(a, b) })
			vAssert(calls == 0, "Defer: the factory was invoked at construction time")
			pipe := vPipe(obs, vFlatInt)
			return func(ctx context.Context, rec *vRecorder) Subscription {
				before := calls
				sub := pipe(ctx, rec)
				vAssert(calls == before+1, "Defer: the factory was not invoked exactly once for the subscription")
				return sub
			}
		},
		ref: func(c *vCtx, in []vStep) []vEv { return []vEv{vN(c.p[0]), vN(c.p[1]), vC()} }},
	{name: "Defer_throw", nsrc: 0, cbs: []string{"d"},
		mk: func(c *vCtx) vPipeline {
			return vPipe(Defer(func() Observable[int64] { vFP("d"); return Throw[int64](vErrA) }), vFlatInt)
		},
		ref: func(c *vCtx, in []vStep) []vEv { return []vEv{vE(vErrA)} }},
	// the factory's choice is made at subscription time, per subscription
	{name: "Defer_choice", nsrc: 0, cbs: []string{"d"},
		mk: func(c *vCtx) vPipeline {
			c.p[0] = vInt64("a")
			a := c.p[0]
			return vPipe(Defer(func() Observable[int64] {
				vFP("d")
				if vUFBool("dc", 0) {
					return Just(a)
				}
				return Empty[int64]()
			}), vFlatInt)
		},
		ref: func(c *vCtx, in []vStep) []vEv {
			if vUFBool("dc", 0) {
				return []vEv{vN(c.p[0]), vC()}
			}
			return []vEv{vC()}
		}},

	// Repeat: "emits a single value multiple times" (TestOperatorCreationRepeat:
	// (1,3) -> [1 1 1]; ("foobar",0) -> []; a negative count panics at
	// construction; ExampleRepeat ends with "Completed").
	{name: "Repeat", nsrc: 0,
		mk: func(c *vCtx) vPipeline {
			v := vInt64("v")
			c.p[1] = v
			return vPipe(Repeat(v, vParam(c, 0, "n", 0)), vFlatInt)
		},
		ref: func(c *vCtx, in []vStep) []vEv {
			var out []vEv
			for i := int64(0); i < c.p[0]; i++ {
				out = append(out, vN(c.p[1]))
			}
			return append(out, vC())
		}},

	// ======================================================================
	// error handling (single source)
	// ======================================================================

	// OnErrorReturn: "emit a particular item when it encounters an error. It
	// will then complete the sequence" (ExampleOnErrorReturn,
	// TestOperatorErrorHandlingOnErrorReturn: untouched without an error).
	{name: "OnErrorReturn", nsrc: 1,
		mk: func(c *vCtx) vPipeline {
			x := vInt64("x")
			c.p[0] = x
			return vPipe(OnErrorReturn(x)(c.src[0]), vFlatInt)
		},
		ref: func(c *vCtx, in []vStep) []vEv {
			var out []vEv
			for _, v := range vVals(in) {
				out = append(out, vN(v))
			}
			switch vEnd(in) {
			case vkComplete:
				out = append(out, vC())
			case vkError:
				out = append(out, vN(c.p[0]), vC())
			}
			return out
		}},

	// no fallback: the source alone, its terminal forwarded (same test: Empty ->
	// completes, Throw -> its error)
	// (applied to Skip(0)(source), documented as the identity, so that the
	// pipeline is never the bare probe, which does not honour Unsubscribe)
	{name: "OnErrorResumeNextWith_none", nsrc: 1,
		mk: func(c *vCtx) vPipeline {
			return vPipe(OnErrorResumeNextWith[int64]()(Skip[int64](0)(c.src[0])), vFlatInt)
		},
		ref: vRefPass},

	// ======================================================================
	// context operators (operator_context.go): the values pass through
	// unchanged; what the next stage sees in its context is recorded next to
	// each value (vSeeMid).
	// ======================================================================

	// ContextWithValue: "emits the same items as the source Observable, but adds
	// a key-value pair to the context of each item" (ExampleContextWithValue,
	// TestOperatorContextContextWithValue).
	{name: "ContextWithValue", nsrc: 1,
		mk: func(c *vCtx) vPipeline {
			m := vInt64("mid")
			c.p[0] = m
			return vPipe(vSeeMid(ContextWithValue[int64](vKeyMid, m)(c.src[0])), vFlatPair)
		},
		ref: func(c *vCtx, in []vStep) []vEv { return vRefSeen(in, func(int) int64 { return c.p[0] }) }},
	{name: "ContextWithValue_plain", nsrc: 1,
		mk: func(c *vCtx) vPipeline {
			return vPipe(ContextWithValue[int64](vKeyMid, vInt64("mid"))(c.src[0]), vFlatInt)
		},
		ref: vRefPass},

	// ContextMap: "The project function is called for each item emitted by the
	// source Observable, and the context is replaced with the context returned
	// by the project function" (TestOperatorContextContextMap).
	{name: "ContextMap", nsrc: 1, cbs: []string{"cm"},
		mk: func(c *vCtx) vPipeline {
			m := vInt64("mid")
			c.p[0] = m
			return vPipe(vSeeMid(ContextMap[int64](func(ctx context.Context) context.Context {
				vFP("cm")
				return context.WithValue(ctx, vKeyMid, m)
			})(c.src[0])), vFlatPair)
		},
		ref: func(c *vCtx, in []vStep) []vEv { return vRefSeen(in, func(int) int64 { return c.p[0] }) }},
	// ContextMapI: the index is the position of the item in the source, from 0
	// (TestOperatorContextContextMapI).
	{name: "ContextMapI", nsrc: 1, cbs: []string{"cm"},
		mk: func(c *vCtx) vPipeline {
			return vPipe(vSeeMid(ContextMapI[int64](func(ctx context.Context, i int64) context.Context {
				vFP("cm")
				return context.WithValue(ctx, vKeyMid, i)
			})(c.src[0])), vFlatPair)
		},
		ref: func(c *vCtx, in []vStep) []vEv { return vRefSeen(in, func(i int) int64 { return int64(i) }) }},

	// ThrowOnContextCancel: "emits the same items as the source Observable, but
	// throws an error if the context is canceled"; with a context that is never
	// cancelled it is the identity (TestOperatorContextThrowOnContextCancel: the
	// values before the cancelled item pass through untouched).
	// The operator watches the context from a goroutine of its own, which is woken
	// by the teardown and then exits: the subscription handed to the harness lets
	// it run to its end (vQuiesce) after Unsubscribe / Wait, so that C03 sees a
	// goroutine that stays blocked or keeps looping, not one that merely has not
	// been scheduled yet.
	{name: "ThrowOnContextCancel", nsrc: 1,
		mk: func(c *vCtx) vPipeline {
			pipe := vPipe(ThrowOnContextCancel[int64]()(c.src[0]), vFlatInt)
			return func(ctx context.Context, rec *vRecorder) Subscription {
				return vQuiescentSub{pipe(ctx, rec)}
			}
		},
		ref: vRefPass},
}

// vQuiescentSub lets the library's goroutines run until none can after
// Unsubscribe and Wait.
type vQuiescentSub struct{ Subscription }

func (s vQuiescentSub) Unsubscribe() { s.Subscription.Unsubscribe(); vQuiesce() }
func (s vQuiescentSub) Wait()        { s.Subscription.Wait(); vQuiesce() }

func init() { vCatalog = append(vCatalog, vCatalogCreation...) }

// ---------------------------------------------------------------------------
// Operators that wait inside subscribe until their source has terminated
// (OnErrorResumeNextWith with at least one fallback, like Concat): with a
// source that has not terminated yet the Subscribe call does not return, so the
// single-threaded catalogue walks (C01/C03/C04/C09/C12 drive the source from
// the thread that called Subscribe) cannot host them — every hot or unfinished
// script ends in "deadlock: no thread can run: [thread 0 (harness) blocked at
// chan receive at subscription.go:181]".  They are kept out of vCatalog and
// checked against their reference by vC04Blocking, which runs Subscribe in a
// thread of its own (as C05 / C14 do).  The blocked Subscribe itself is the
// structural behaviour recorded under C14 in DESIGN.md, not re-reported here.

var vCatalogBlocking = []vOp{
	// OnErrorResumeNextWith: "begin emitting a second Observable sequence if it
	// encounters an error or completes" (TestOperatorErrorHandlingOnErrorResumeNextWith:
	// Of(1,2,3) completing is followed by the next sequences -> [1..7];
	// ExampleOnErrorResumeNextWith: after an error -> 4 5 6, Completed).  The
	// last sequence's terminal is the output's terminal.
	{name: "OnErrorResumeNextWith", nsrc: 1,
		mk: func(c *vCtx) vPipeline {
			x := vInt64("x")
			c.p[0] = x
			return vPipe(OnErrorResumeNextWith(Just(x))(c.src[0]), vFlatInt)
		},
		ref: func(c *vCtx, in []vStep) []vEv {
			var out []vEv
			for _, v := range vVals(in) {
				out = append(out, vN(v))
			}
			if vEnd(in) != -1 {
				out = append(out, vN(c.p[0]), vC())
			}
			return out
		}},
	// the last sequence's error is the output's error (same test, 2nd case)
	{name: "OnErrorResumeNextWith_throw", nsrc: 1,
		mk: func(c *vCtx) vPipeline {
			return vPipe(OnErrorResumeNextWith(Throw[int64](vErrB))(c.src[0]), vFlatInt)
		},
		ref: func(c *vCtx, in []vStep) []vEv {
			var out []vEv
			for _, v := range vVals(in) {
				out = append(out, vN(v))
			}
			if vEnd(in) != -1 {
				out = append(out, vE(vErrB))
			}
			return out
		}},
}

func vC04Blocking(L int) {
	op := &vCatalogBlocking[vChoice("entry", len(vCatalogBlocking))]
	in := vLegalScript("s", L)
	p := &vProbe{name: "src"}
	hot := vChoice("hot", 2) == 1
	if !hot {
		p.cold = true
		p.script = in
	}
	c := &vCtx{src: []Observable[int64]{p}, L: L}
	pipe := op.mk(c)
	vAssert(p.subs == 0, op.name+": the source was subscribed at construction time")
	rec := &vRecorder{}
	returned := false
	vGo(func() {
		pipe(context.Background(), rec)
		returned = true
	})
	vQuiesce()
	if hot {
		for _, st := range in {
			p.emit(st)
			vQuiesce()
		}
	}
	want := op.ref(c, in)
	vCheckGrammar(op.name, rec)
	vSameEvents(op.name, rec.evs, want)
	vAssert(p.subs == 1, op.name+": the source was not subscribed exactly once")
	if vEnd(in) != -1 {
		vAssert(returned, op.name+": the Subscribe call is still blocked after the output terminated")
		vAssert(p.live == 0, op.name+": the source is still subscribed after the output terminated")
		run, blk := vLive()
		vAssert(run+blk == 0, op.name+": a library goroutine is left after the output terminated")
	}
	vReach("end")
}

func vhC04_blocking_L2() { vC04Blocking(2) }
func vhC04_blocking_L3() { vC04Blocking(3) }
