package ro

import "context"

// C09: every catalogue entry subscribed with a context carrying a symbolic
// marker; every source must be subscribed with a context carrying it, and
// every callback of the final observer must get a non-nil context that still
// carries it, for values, errors and completion alike.
func vC09Cat(L int) {
	op := &vCatalog[vChoice("entry", len(vCatalog))]
	if op.nsrc > 1 || op.name == "DefaultIfEmpty" || op.name == "ContextReset" || op.name == "ContextReset_nil" {
		// ContextReset replaces the context by definition.
		// DefaultIfEmpty(v) is DefaultIfEmptyWithContext(context.Background(), v): a deliberate,
		// documented context reset for the default item (excluded by name, see DESIGN.md C09)
		vAssume(false)
	}
	var in []vStep
	if op.nsrc == 1 {
		in = vLegalScript("s", L)
	}
	m := vInt64("marker")
	ctx0 := context.WithValue(context.Background(), vKeySub, m)
	p := &vProbe{name: "src", itemCtx: true}
	hot := vChoice("hot", 2) == 1
	if !hot {
		p.cold = true
		p.script = in
	}
	c := &vCtx{src: []Observable[int64]{p}, L: L}
	pipe := op.mk(c)
	rec := &vRecorder{}
	pipe(ctx0, rec)
	if hot {
		for _, st := range in {
			p.emit(st)
		}
	}
	for _, sc := range p.ctxs {
		vAssert(sc != nil, op.name+": the source was subscribed with a nil context")
		got, ok := sc.Value(vKeySub).(int64)
		vAssert(ok, op.name+": the source was not subscribed with the context given to SubscribeWithContext")
		vAssert(got == m, op.name+": the source was subscribed with a different context value")
	}
	for _, e := range rec.evs {
		vAssert(e.ctx != nil, op.name+": a callback was invoked with a nil context")
		got, ok := e.ctx.Value(vKeySub).(int64)
		vAssert(ok, op.name+": a callback context lost the value attached at subscription")
		vAssert(got == m, op.name+": a callback context carries a different subscription value")
	}
	if vPassesItems(op.name) {
		// operators that forward (a selection of) the source's own items, stored or not: each
		// delivered item still carries the per-item value the source attached to IT (the probe
		// attaches the item's own payload as marker)
		for _, e := range rec.evs {
			if e.kind == vkNext && len(e.vals) == 1 {
				it, ok := e.ctx.Value(vKeyItem).(int64)
				vAssert(ok && it == e.vals[0], op.name+": an item was delivered with the context of another item (per-item value attached upstream)")
			}
		}
	}
	vReach("end")
}

// vPassesItems: entries whose output values are source items forwarded unchanged, each of which
// must therefore come with its own context.
func vPassesItems(name string) bool {
	for _, p := range []string{"Filter", "Take", "Skip", "First", "Last", "Head", "Tail", "Distinct", "ElementAt", "Find", "TapOn", "DoOn", "Tap", "Do", "Serialize", "Timeout", "ThrowOnContextCancel", "OnErrorResumeNextWith_none", "Catch", "ThrowIfEmpty", "IgnoreElements", "Materialize_Dematerialize", "ContextWithValue_plain"} {
		if len(name) >= len(p) && name[:len(p)] == p {
			if name == "ElementAtOrDefault" || name == "Catch" {
				return false // may deliver a value that is not a source item
			}
			return true
		}
	}
	return false
}

func vhC09_cat_L2() { vC09Cat(2) }
func vhC09_cat_L3() { vC09Cat(3) }

// C09 for multi-source operators: every source is subscribed with a context that carries the
// subscription marker, and every callback of the final observer — whichever source caused it,
// including stored values (zip queues, combine-latest, buffers, windows) — carries it too.
func vC09Multi(T int) {
	op := &vMCatalog[vChoice("entry", len(vMCatalog))]
	m := vInt64("marker")
	ctx0 := context.WithValue(context.Background(), vKeySub, m)
	probes := make([]*vProbe, op.nsrc)
	srcs := make([]Observable[int64], op.nsrc)
	for i := range probes {
		probes[i] = &vProbe{name: "src" + vItoa(i), itemCtx: true}
		srcs[i] = probes[i]
	}
	c := &vCtx{src: srcs, L: T}
	pipe := op.mk(c)
	rec := &vRecorder{}
	vGo(func() { pipe(ctx0, rec) })
	vQuiesce()
	ended := make([]bool, op.nsrc)
	for t := 0; t < T; t++ {
		k := vChoice("src"+vItoa(t), op.nsrc)
		kind := vChoice("k"+vItoa(t), 3)
		if ended[k] || probes[k].subs == 0 {
			vAssume(false)
		}
		if kind != vkNext {
			ended[k] = true
		}
		if probes[k].live > 0 {
			probes[k].emit(vStep{kind, vInt64("v" + vItoa(t))})
		}
		vQuiesce()
	}
	for _, p := range probes {
		for _, sc := range p.ctxs {
			vAssert(sc != nil, op.name+": a source was subscribed with a nil context")
			got, ok := sc.Value(vKeySub).(int64)
			vAssert(ok, op.name+": a source was not subscribed with the context given to SubscribeWithContext")
			vAssert(got == m, op.name+": a source was subscribed with a different context value")
		}
	}
	for _, e := range rec.evs {
		vAssert(e.ctx != nil, op.name+": a callback was invoked with a nil context")
		got, ok := e.ctx.Value(vKeySub).(int64)
		vAssert(ok, op.name+": a callback context lost the value attached at subscription")
		vAssert(got == m, op.name+": a callback context carries a different subscription value")
	}
	vReach("end")
}

func vhC09_multi_T2() { vC09Multi(2) }
func vhC09_multi_T3() { vC09Multi(3) }
