package ro

import "context"

// C12 for multi-source entries: the pipeline is built once and subscribed
// twice in sequence; each subscription is driven by its own step sequence and
// must produce the definition's output for that sequence alone — nothing of
// the first subscription (pending values, counters, flags) may leak into the
// second.
func vC12Multi(T int) {
	op := &vMCatalog[vChoice("entry", len(vMCatalog))]
	probes := make([]*vProbe, op.nsrc)
	srcs := make([]Observable[int64], op.nsrc)
	for i := range probes {
		probes[i] = &vProbe{name: "src" + vItoa(i)}
		srcs[i] = probes[i]
	}
	c := &vCtx{src: srcs, L: T}
	pipe := op.mk(c)
	for round := 0; round < 2; round++ {
		rec := &vRecorder{name: "r" + vItoa(round)}
		var sub Subscription
		base := make([]int, op.nsrc)
		for i, p := range probes {
			base[i] = p.subs
		}
		vGo(func() { sub = pipe(context.Background(), rec) })
		vQuiesce()
		var steps []vMStep
		ended := make([]bool, op.nsrc)
		for t := 0; t < T; t++ {
			tag := vItoa(round) + "_" + vItoa(t)
			s := vMStep{src: vChoice("src"+tag, op.nsrc), kind: vChoice("k"+tag, 3)}
			if ended[s.src] {
				vAssume(false)
			}
			p := probes[s.src]
			if p.subs == base[s.src] {
				vAssume(false) // not subscribed in this round yet
			}
			if s.kind == vkNext {
				s.v = vInt64("v" + tag)
			} else {
				ended[s.src] = true
			}
			steps = append(steps, s)
			if p.live > 0 {
				p.emit(vStep{s.kind, s.v})
			}
			vQuiesce()
		}
		vSameEvents(op.name+" (subscription "+vItoa(round+1)+" of a reused pipeline)", rec.evs, op.ref(c, steps))
		if sub == nil {
			// the Subscribe call is still blocked inside the operator (concat family waits for its
			// current source): there is no handle to unsubscribe with; covered by C14, not here
			vAssume(false)
		}
		sub.Unsubscribe()
		vQuiesce()
		for _, p := range probes {
			vAssert(p.live == 0, op.name+": a source is still subscribed after Unsubscribe")
		}
	}
	vReach("end")
}

func vhC12_multi_T2() { vC12Multi(2) }
func vhC12_multi_T3() { vC12Multi(3) }
