package ro

// Catalogue, batch "transform": transformation / math / sink / utility operators
// with a single source, instantiated at T=int64.  Reference models are derived
// from the doc comments, docs/data/*.md and the repository's own tests (noted
// per entry where a test pins a corner case); they are not transcriptions of
// the implementation.

import (
	"context"
	"errors"
)

// ---------------------------------------------------------------------------
// flatteners and helpers private to this batch

// vFlatNotif flattens a Notification[int64] into {kind, value, error code}.
func vFlatNotif(n Notification[int64]) []int64 {
	return []int64{int64(n.Kind), n.Value, vErrCode(n.Err)}
}

func vFlatIntervalValue(v IntervalValue[int64]) []int64   { return []int64{v.Value} }
func vFlatTimestampValue(v TimestampValue[int64]) []int64 { return []int64{v.Value} }
func vFlatString(s string) []int64                        { return []int64{int64(len(s))} }

// vKeyLog remembers the keys handed out by a ToMap projection, in invocation
// order, so that the emitted map can be flattened deterministically:
// {len(m), k0, m[k0], present0, k1, m[k1], present1, ...}.
type vKeyLog struct{ keys []int64 }

func (l *vKeyLog) flat(m map[int64]int64) []int64 {
	out := []int64{int64(len(m))}
	for _, k := range l.keys {
		v, ok := m[k]
		var present int64
		if ok {
			present = 1
		}
		out = append(out, k, v, present)
	}
	l.keys = nil // one map per subscription: start afresh for the next one
	return out
}

// vRefMap is the reference for the flattened map: last write wins per key.
func vRefMap(keys, ws []int64) []int64 {
	row := []int64{0}
	distinct := 0
	for i := range keys {
		last := ws[i]
		first := true
		for j := range keys {
			if keys[j] == keys[i] {
				if j < i {
					first = false
				}
				if j > i {
					last = ws[j]
				}
			}
		}
		if first {
			distinct++
		}
		row = append(row, keys[i], last, 1)
	}
	row[0] = int64(distinct)
	return row
}

// vRefPass is the identity reference (pass-through operators).
func vRefPass(c *vCtx, in []vStep) []vEv {
	var out []vEv
	for _, v := range vVals(in) {
		out = append(out, vN(v))
	}
	return vTail(out, in)
}

// vRefFold is the reference of the Reduce family: the folded value, once, at
// completion (the seed for an empty source: TestOperatorMathReduce); nothing
// but the error on failure.
func vRefFold(c *vCtx, in []vStep, withIndex bool) []vEv {
	switch vEnd(in) {
	case vkComplete:
		acc := c.p[0]
		for i, v := range vVals(in) {
			if withIndex {
				acc = vUFInt("g", acc, v, int64(i))
			} else {
				acc = vUFInt("g", acc, v)
			}
		}
		return []vEv{vN(acc), vC()}
	case vkError:
		return []vEv{vE(vErrA)}
	}
	return nil
}

// vNotifSource turns the int64 source into a stream of notifications whose
// kind is chosen by uninterpreted predicates of the item.
func vNotifSource(src Observable[int64]) Observable[Notification[int64]] {
	return Map(func(v int64) Notification[int64] {
		if vUFBool("ke", v) {
			return NewNotificationError[int64](vErrB)
		}
		if vUFBool("kc", v) {
			return NewNotificationComplete[int64]()
		}
		return NewNotificationNext(v)
	})(src)
}

// vSliceSource turns the int64 source into a stream of slices: the i-th item v
// becomes a slice of length i%3 holding v, v+1, ...
func vSliceSource(src Observable[int64]) Observable[[]int64] {
	return MapI(func(v int64, i int64) []int64 {
		s := []int64{}
		for k := int64(0); k < i%3; k++ {
			s = append(s, v+k)
		}
		return s
	})(src)
}

var vCatalogTransform = []vOp{
	// ---- Map family -------------------------------------------------------
	{name: "MapWithContext", nsrc: 1, cbs: []string{"f"},
		mk: func(c *vCtx) vPipeline {
			return vPipe(MapWithContext(func(ctx context.Context, v int64) (context.Context, int64) {
				vFP("f")
				return ctx, vUFInt("f", v)
			})(c.src[0]), vFlatInt)
		},
		ref: func(c *vCtx, in []vStep) []vEv {
			var out []vEv
			for _, v := range vVals(in) {
				out = append(out, vN(vUFInt("f", v)))
			}
			return vTail(out, in)
		}},
	{name: "MapIWithContext", nsrc: 1, cbs: []string{"f"},
		mk: func(c *vCtx) vPipeline {
			return vPipe(MapIWithContext(func(ctx context.Context, v int64, i int64) (context.Context, int64) {
				vFP("f")
				return ctx, vUFInt("f", v, i)
			})(c.src[0]), vFlatInt)
		},
		ref: func(c *vCtx, in []vStep) []vEv {
			var out []vEv
			for i, v := range vVals(in) {
				out = append(out, vN(vUFInt("f", v, int64(i))))
			}
			return vTail(out, in)
		}},
	{name: "MapTo", nsrc: 1,
		mk: func(c *vCtx) vPipeline {
			k := vInt64("k")
			c.p[0] = k
			return vPipe(MapTo[int64](k)(c.src[0]), vFlatInt)
		},
		ref: func(c *vCtx, in []vStep) []vEv {
			var out []vEv
			for range vVals(in) {
				out = append(out, vN(c.p[0]))
			}
			return vTail(out, in)
		}},
	// MapErr: values up to the first item whose projection fails, then that
	// error and nothing else (TestOperatorTransformationMapErr, core-maperr.md).
	{name: "MapErr", nsrc: 1, cbs: []string{"f"},
		mk: func(c *vCtx) vPipeline {
			return vPipe(MapErr(func(v int64) (int64, error) {
				vFP("f")
				if vUFBool("fe", v) {
					return 0, vErrB
				}
				return vUFInt("f", v), nil
			})(c.src[0]), vFlatInt)
		},
		ref: func(c *vCtx, in []vStep) []vEv {
			var out []vEv
			for _, v := range vVals(in) {
				if vUFBool("fe", v) {
					return append(out, vE(vErrB))
				}
				out = append(out, vN(vUFInt("f", v)))
			}
			return vTail(out, in)
		}},
	{name: "MapErrI", nsrc: 1, cbs: []string{"f"},
		mk: func(c *vCtx) vPipeline {
			return vPipe(MapErrI(func(v int64, i int64) (int64, error) {
				vFP("f")
				if vUFBool("fe", v, i) {
					return 0, vErrB
				}
				return vUFInt("f", v, i), nil
			})(c.src[0]), vFlatInt)
		},
		ref: func(c *vCtx, in []vStep) []vEv {
			var out []vEv
			for i, v := range vVals(in) {
				if vUFBool("fe", v, int64(i)) {
					return append(out, vE(vErrB))
				}
				out = append(out, vN(vUFInt("f", v, int64(i))))
			}
			return vTail(out, in)
		}},

	{name: "MapErrWithContext", nsrc: 1, cbs: []string{"f"},
		mk: func(c *vCtx) vPipeline {
			return vPipe(MapErrWithContext(func(ctx context.Context, v int64) (int64, context.Context, error) {
				vFP("f")
				if vUFBool("fe", v) {
					return 0, ctx, vErrB
				}
				return vUFInt("f", v), ctx, nil
			})(c.src[0]), vFlatInt)
		},
		ref: func(c *vCtx, in []vStep) []vEv {
			var out []vEv
			for _, v := range vVals(in) {
				if vUFBool("fe", v) {
					return append(out, vE(vErrB))
				}
				out = append(out, vN(vUFInt("f", v)))
			}
			return vTail(out, in)
		}},
	{name: "MapErrIWithContext", nsrc: 1, cbs: []string{"f"},
		mk: func(c *vCtx) vPipeline {
			return vPipe(MapErrIWithContext(func(ctx context.Context, v int64, i int64) (int64, context.Context, error) {
				vFP("f")
				if vUFBool("fe", v, i) {
					return 0, ctx, vErrB
				}
				return vUFInt("f", v, i), ctx, nil
			})(c.src[0]), vFlatInt)
		},
		ref: func(c *vCtx, in []vStep) []vEv {
			var out []vEv
			for i, v := range vVals(in) {
				if vUFBool("fe", v, int64(i)) {
					return append(out, vE(vErrB))
				}
				out = append(out, vN(vUFInt("f", v, int64(i))))
			}
			return vTail(out, in)
		}},

	// ---- Scan family ------------------------------------------------------
	{name: "ScanI", nsrc: 1, cbs: []string{"g"},
		mk: func(c *vCtx) vPipeline {
			seed := vInt64("seed")
			c.p[0] = seed
			return vPipe(ScanI(func(acc int64, v int64, i int64) int64 { vFP("g"); return vUFInt("g", acc, v, i) }, seed)(c.src[0]), vFlatInt)
		},
		ref: func(c *vCtx, in []vStep) []vEv {
			var out []vEv
			acc := c.p[0]
			for i, v := range vVals(in) {
				acc = vUFInt("g", acc, v, int64(i))
				out = append(out, vN(acc))
			}
			return vTail(out, in)
		}},
	{name: "ScanWithContext", nsrc: 1, cbs: []string{"g"},
		mk: func(c *vCtx) vPipeline {
			seed := vInt64("seed")
			c.p[0] = seed
			return vPipe(ScanWithContext(func(ctx context.Context, acc int64, v int64) (context.Context, int64) {
				vFP("g")
				return ctx, vUFInt("g", acc, v)
			}, seed)(c.src[0]), vFlatInt)
		},
		ref: func(c *vCtx, in []vStep) []vEv {
			var out []vEv
			acc := c.p[0]
			for _, v := range vVals(in) {
				acc = vUFInt("g", acc, v)
				out = append(out, vN(acc))
			}
			return vTail(out, in)
		}},

	{name: "ScanIWithContext", nsrc: 1, cbs: []string{"g"},
		mk: func(c *vCtx) vPipeline {
			seed := vInt64("seed")
			c.p[0] = seed
			return vPipe(ScanIWithContext(func(ctx context.Context, acc int64, v int64, i int64) (context.Context, int64) {
				vFP("g")
				return ctx, vUFInt("g", acc, v, i)
			}, seed)(c.src[0]), vFlatInt)
		},
		ref: func(c *vCtx, in []vStep) []vEv {
			var out []vEv
			acc := c.p[0]
			for i, v := range vVals(in) {
				acc = vUFInt("g", acc, v, int64(i))
				out = append(out, vN(acc))
			}
			return vTail(out, in)
		}},

	// ---- Flatten / Cast / Pairwise ---------------------------------------
	// Flatten: the items of every slice, in order (TestOperatorTransformationFlatten).
	{name: "Flatten", nsrc: 1,
		mk: func(c *vCtx) vPipeline {
			return vPipe(Flatten[int64]()(vSliceSource(c.src[0])), vFlatInt)
		},
		ref: func(c *vCtx, in []vStep) []vEv {
			var out []vEv
			for i, v := range vVals(in) {
				for k := 0; k < i%3; k++ {
					out = append(out, vN(v+int64(k)))
				}
			}
			return vTail(out, in)
		}},
	{name: "Cast", nsrc: 1,
		mk:  func(c *vCtx) vPipeline { return vPipe(Cast[int64, int64]()(c.src[0]), vFlatInt) },
		ref: vRefPass},
	// Cast through an interface: any -> int64 succeeds for int64 dynamic values
	// (TestOperatorTransformationCast, Cast[any,int]).
	{name: "Cast_any", nsrc: 1,
		mk: func(c *vCtx) vPipeline {
			boxed := Map(func(v int64) any { return v })(c.src[0])
			return vPipe(Cast[any, int64]()(boxed), vFlatInt)
		},
		ref: vRefPass},
	// A cast that cannot succeed: the first value yields the library's cast error
	// and no value (TestOperatorTransformationCast, Cast[int,string]).
	{name: "Cast_fail", nsrc: 1,
		mk: func(c *vCtx) vPipeline { return vPipe(Cast[int64, string]()(c.src[0]), vFlatString) },
		ref: func(c *vCtx, in []vStep) []vEv {
			if len(vVals(in)) > 0 {
				return []vEv{vE(vErrLib)}
			}
			return vTail(nil, in)
		}},
	// Pairwise: [previous, current] from the second value on (core-pairwise.md).
	{name: "Pairwise", nsrc: 1,
		mk: func(c *vCtx) vPipeline { return vPipe(Pairwise[int64]()(c.src[0]), vFlatSlice) },
		ref: func(c *vCtx, in []vStep) []vEv {
			var out []vEv
			vals := vVals(in)
			for i := 1; i < len(vals); i++ {
				out = append(out, vN(2, vals[i-1], vals[i]))
			}
			return vTail(out, in)
		}},

	// ---- math -------------------------------------------------------------
	// Min: the smallest value at completion, nothing for an empty source
	// (doc comment, core-min.md, TestOperatorMathMin).
	{name: "Min", nsrc: 1,
		mk: func(c *vCtx) vPipeline { return vPipe(Min[int64]()(c.src[0]), vFlatInt) },
		ref: func(c *vCtx, in []vStep) []vEv {
			switch vEnd(in) {
			case vkComplete:
				vals := vVals(in)
				if len(vals) == 0 {
					return []vEv{vC()}
				}
				m := vals[0]
				for _, v := range vals[1:] {
					m = vIte(v < m, v, m)
				}
				return []vEv{vN(m), vC()}
			case vkError:
				return []vEv{vE(vErrA)}
			}
			return nil
		}},
	// Max: the largest value at completion.  For an empty source the doc comment
	// says "emits no value" but TestOperatorMathMax pins []int{0}: the test ranks
	// higher in the oracle hierarchy, so the reference follows the test.
	{name: "Max", nsrc: 1,
		mk: func(c *vCtx) vPipeline { return vPipe(Max[int64]()(c.src[0]), vFlatInt) },
		ref: func(c *vCtx, in []vStep) []vEv {
			switch vEnd(in) {
			case vkComplete:
				vals := vVals(in)
				if len(vals) == 0 {
					return []vEv{vN(0), vC()}
				}
				m := vals[0]
				for _, v := range vals[1:] {
					m = vIte(v > m, v, m)
				}
				return []vEv{vN(m), vC()}
			case vkError:
				return []vEv{vE(vErrA)}
			}
			return nil
		}},
	// Clamp: every value forced into the inclusive range [lower, upper].
	{name: "Clamp", nsrc: 1,
		mk: func(c *vCtx) vPipeline {
			lo, hi := vInt64("lo"), vInt64("hi")
			vAssume(lo <= hi)
			c.p[0], c.p[1] = lo, hi
			return vPipe(Clamp(lo, hi)(c.src[0]), vFlatInt)
		},
		ref: func(c *vCtx, in []vStep) []vEv {
			var out []vEv
			for _, v := range vVals(in) {
				out = append(out, vN(vIte(v < c.p[0], c.p[0], vIte(v > c.p[1], c.p[1], v))))
			}
			return vTail(out, in)
		}},
	{name: "Reduce", nsrc: 1, cbs: []string{"g"},
		mk: func(c *vCtx) vPipeline {
			seed := vInt64("seed")
			c.p[0] = seed
			return vPipe(Reduce(func(acc int64, v int64) int64 { vFP("g"); return vUFInt("g", acc, v) }, seed)(c.src[0]), vFlatInt)
		},
		ref: func(c *vCtx, in []vStep) []vEv { return vRefFold(c, in, false) }},
	{name: "ReduceI", nsrc: 1, cbs: []string{"g"},
		mk: func(c *vCtx) vPipeline {
			seed := vInt64("seed")
			c.p[0] = seed
			return vPipe(ReduceI(func(acc int64, v int64, i int64) int64 { vFP("g"); return vUFInt("g", acc, v, i) }, seed)(c.src[0]), vFlatInt)
		},
		ref: func(c *vCtx, in []vStep) []vEv { return vRefFold(c, in, true) }},
	{name: "ReduceWithContext", nsrc: 1, cbs: []string{"g"},
		mk: func(c *vCtx) vPipeline {
			seed := vInt64("seed")
			c.p[0] = seed
			return vPipe(ReduceWithContext(func(ctx context.Context, acc int64, v int64) (context.Context, int64) {
				vFP("g")
				return ctx, vUFInt("g", acc, v)
			}, seed)(c.src[0]), vFlatInt)
		},
		ref: func(c *vCtx, in []vStep) []vEv { return vRefFold(c, in, false) }},

	{name: "ReduceIWithContext", nsrc: 1, cbs: []string{"g"},
		mk: func(c *vCtx) vPipeline {
			seed := vInt64("seed")
			c.p[0] = seed
			return vPipe(ReduceIWithContext(func(ctx context.Context, acc int64, v int64, i int64) (context.Context, int64) {
				vFP("g")
				return ctx, vUFInt("g", acc, v, i)
			}, seed)(c.src[0]), vFlatInt)
		},
		ref: func(c *vCtx, in []vStep) []vEv { return vRefFold(c, in, true) }},

	// ---- sinks ------------------------------------------------------------
	// ToMap: one map at completion, last write wins per key (property C17,
	// core-tomap.md "last value wins"); empty map for an empty source.
	{name: "ToMap", nsrc: 1, cbs: []string{"f"},
		mk: func(c *vCtx) vPipeline {
			log := &vKeyLog{}
			inner := vPipe(ToMap(func(v int64) (int64, int64) {
				vFP("f")
				k := vUFInt("k", v)
				log.keys = append(log.keys, k)
				return k, vUFInt("w", v)
			})(c.src[0]), log.flat)
			return func(ctx context.Context, rec *vRecorder) Subscription {
				log.keys = nil // the key log belongs to one subscription
				return inner(ctx, rec)
			}
		},
		ref: func(c *vCtx, in []vStep) []vEv {
			switch vEnd(in) {
			case vkComplete:
				var keys, ws []int64
				for _, v := range vVals(in) {
					keys = append(keys, vUFInt("k", v))
					ws = append(ws, vUFInt("w", v))
				}
				return []vEv{vN(vRefMap(keys, ws)...), vC()}
			case vkError:
				return []vEv{vE(vErrA)}
			}
			return nil
		}},
	{name: "ToMapI", nsrc: 1, cbs: []string{"f"},
		mk: func(c *vCtx) vPipeline {
			log := &vKeyLog{}
			inner := vPipe(ToMapI(func(v int64, i int64) (int64, int64) {
				vFP("f")
				k := vUFInt("k", v, i)
				log.keys = append(log.keys, k)
				return k, vUFInt("w", v, i)
			})(c.src[0]), log.flat)
			return func(ctx context.Context, rec *vRecorder) Subscription {
				log.keys = nil // the key log belongs to one subscription
				return inner(ctx, rec)
			}
		},
		ref: func(c *vCtx, in []vStep) []vEv {
			switch vEnd(in) {
			case vkComplete:
				var keys, ws []int64
				for i, v := range vVals(in) {
					keys = append(keys, vUFInt("k", v, int64(i)))
					ws = append(ws, vUFInt("w", v, int64(i)))
				}
				return []vEv{vN(vRefMap(keys, ws)...), vC()}
			case vkError:
				return []vEv{vE(vErrA)}
			}
			return nil
		}},

	{name: "ToMapWithContext", nsrc: 1, cbs: []string{"f"},
		mk: func(c *vCtx) vPipeline {
			log := &vKeyLog{}
			inner := vPipe(ToMapWithContext(func(ctx context.Context, v int64) (int64, int64) {
				vFP("f")
				k := vUFInt("k", v)
				log.keys = append(log.keys, k)
				return k, vUFInt("w", v)
			})(c.src[0]), log.flat)
			return func(ctx context.Context, rec *vRecorder) Subscription {
				log.keys = nil // the key log belongs to one subscription
				return inner(ctx, rec)
			}
		},
		ref: func(c *vCtx, in []vStep) []vEv {
			switch vEnd(in) {
			case vkComplete:
				var keys, ws []int64
				for _, v := range vVals(in) {
					keys = append(keys, vUFInt("k", v))
					ws = append(ws, vUFInt("w", v))
				}
				return []vEv{vN(vRefMap(keys, ws)...), vC()}
			case vkError:
				return []vEv{vE(vErrA)}
			}
			return nil
		}},
	{name: "ToMapIWithContext", nsrc: 1, cbs: []string{"f"},
		mk: func(c *vCtx) vPipeline {
			log := &vKeyLog{}
			inner := vPipe(ToMapIWithContext(func(ctx context.Context, v int64, i int64) (int64, int64) {
				vFP("f")
				k := vUFInt("k", v, i)
				log.keys = append(log.keys, k)
				return k, vUFInt("w", v, i)
			})(c.src[0]), log.flat)
			return func(ctx context.Context, rec *vRecorder) Subscription {
				log.keys = nil // the key log belongs to one subscription
				return inner(ctx, rec)
			}
		},
		ref: func(c *vCtx, in []vStep) []vEv {
			switch vEnd(in) {
			case vkComplete:
				var keys, ws []int64
				for i, v := range vVals(in) {
					keys = append(keys, vUFInt("k", v, int64(i)))
					ws = append(ws, vUFInt("w", v, int64(i)))
				}
				return []vEv{vN(vRefMap(keys, ws)...), vC()}
			case vkError:
				return []vEv{vE(vErrA)}
			}
			return nil
		}},

	// ---- Materialize / Dematerialize -------------------------------------
	// Materialize: every notification becomes a value; the terminal one is
	// followed by a completion, also for errors (TestOperatorUtilityMaterialize).
	{name: "Materialize", nsrc: 1,
		mk: func(c *vCtx) vPipeline { return vPipe(Materialize[int64]()(c.src[0]), vFlatNotif) },
		ref: func(c *vCtx, in []vStep) []vEv {
			var out []vEv
			for _, v := range vVals(in) {
				out = append(out, vN(int64(KindNext), v, 0))
			}
			switch vEnd(in) {
			case vkComplete:
				out = append(out, vN(int64(KindComplete), 0, 0), vC())
			case vkError:
				out = append(out, vN(int64(KindError), 0, 1), vC())
			}
			return out
		}},
	// Dematerialize: Next notifications become values, the first Error/Complete
	// notification becomes the terminal (TestOperatorUtilityDematerialize); the
	// source's own terminal is forwarded if none came before.
	{name: "Dematerialize", nsrc: 1,
		mk: func(c *vCtx) vPipeline {
			return vPipe(Dematerialize[int64]()(vNotifSource(c.src[0])), vFlatInt)
		},
		ref: func(c *vCtx, in []vStep) []vEv {
			var out []vEv
			for _, v := range vVals(in) {
				if vUFBool("ke", v) {
					return append(out, vE(vErrB))
				}
				if vUFBool("kc", v) {
					return append(out, vC())
				}
				out = append(out, vN(v))
			}
			return vTail(out, in)
		}},
	// Materialize followed by Dematerialize is the identity (property C17).
	{name: "Materialize_Dematerialize", nsrc: 1,
		mk: func(c *vCtx) vPipeline {
			return vPipe(Dematerialize[int64]()(Materialize[int64]()(c.src[0])), vFlatInt)
		},
		ref: vRefPass},

	// ---- time-tagging (only the carried value is compared) ----------------
	{name: "TimeInterval", nsrc: 1,
		mk:  func(c *vCtx) vPipeline { return vPipe(TimeInterval[int64]()(c.src[0]), vFlatIntervalValue) },
		ref: vRefPass},
	{name: "Timestamp", nsrc: 1,
		mk:  func(c *vCtx) vPipeline { return vPipe(Timestamp[int64]()(c.src[0]), vFlatTimestampValue) },
		ref: vRefPass},

	// ---- Tap / Do: side effects only, the stream is mirrored --------------
	{name: "Tap", nsrc: 1, cbs: []string{"tn", "te", "tc"},
		mk: func(c *vCtx) vPipeline {
			return vPipe(Tap(
				func(v int64) { vFP("tn") },
				func(err error) { vFP("te") },
				func() { vFP("tc") },
			)(c.src[0]), vFlatInt)
		},
		ref: vRefPass},
	{name: "TapWithContext", nsrc: 1, cbs: []string{"tn", "te", "tc"},
		mk: func(c *vCtx) vPipeline {
			return vPipe(TapWithContext(
				func(ctx context.Context, v int64) { vFP("tn") },
				func(ctx context.Context, err error) { vFP("te") },
				func(ctx context.Context) { vFP("tc") },
			)(c.src[0]), vFlatInt)
		},
		ref: vRefPass},
	{name: "Do", nsrc: 1, cbs: []string{"tn", "te", "tc"},
		mk: func(c *vCtx) vPipeline {
			return vPipe(Do(
				func(v int64) { vFP("tn") },
				func(err error) { vFP("te") },
				func() { vFP("tc") },
			)(c.src[0]), vFlatInt)
		},
		ref: vRefPass},
	{name: "TapOnNext", nsrc: 1, cbs: []string{"tn"},
		mk: func(c *vCtx) vPipeline {
			return vPipe(TapOnNext(func(v int64) { vFP("tn") })(c.src[0]), vFlatInt)
		},
		ref: vRefPass},
	{name: "DoOnNext", nsrc: 1, cbs: []string{"tn"},
		mk: func(c *vCtx) vPipeline {
			return vPipe(DoOnNext(func(v int64) { vFP("tn") })(c.src[0]), vFlatInt)
		},
		ref: vRefPass},
	{name: "TapOnError", nsrc: 1, cbs: []string{"te"},
		mk: func(c *vCtx) vPipeline {
			return vPipe(TapOnError[int64](func(err error) { vFP("te") })(c.src[0]), vFlatInt)
		},
		ref: vRefPass},
	{name: "DoOnError", nsrc: 1, cbs: []string{"te"},
		mk: func(c *vCtx) vPipeline {
			return vPipe(DoOnError[int64](func(err error) { vFP("te") })(c.src[0]), vFlatInt)
		},
		ref: vRefPass},
	{name: "TapOnComplete", nsrc: 1, cbs: []string{"tc"},
		mk: func(c *vCtx) vPipeline {
			return vPipe(TapOnComplete[int64](func() { vFP("tc") })(c.src[0]), vFlatInt)
		},
		ref: vRefPass},
	{name: "DoOnComplete", nsrc: 1, cbs: []string{"tc"},
		mk: func(c *vCtx) vPipeline {
			return vPipe(DoOnComplete[int64](func() { vFP("tc") })(c.src[0]), vFlatInt)
		},
		ref: vRefPass},
	{name: "TapOnSubscribe", nsrc: 1, cbs: []string{"ts"},
		mk: func(c *vCtx) vPipeline {
			return vPipe(TapOnSubscribe[int64](func() { vFP("ts") })(c.src[0]), vFlatInt)
		},
		ref: vRefPass},
	{name: "DoOnSubscribe", nsrc: 1, cbs: []string{"ts"},
		mk: func(c *vCtx) vPipeline {
			return vPipe(DoOnSubscribe[int64](func() { vFP("ts") })(c.src[0]), vFlatInt)
		},
		ref: vRefPass},
	{name: "TapOnFinalize", nsrc: 1, cbs: nil, /* the finalizer is a teardown (C03), not a C07 callback position */
		mk: func(c *vCtx) vPipeline {
			return vPipe(TapOnFinalize[int64](func() { vFP("tf") })(c.src[0]), vFlatInt)
		},
		ref: vRefPass},
	{name: "DoOnFinalize", nsrc: 1, cbs: nil, /* the finalizer is a teardown (C03), not a C07 callback position */
		mk: func(c *vCtx) vPipeline {
			return vPipe(DoOnFinalize[int64](func() { vFP("tf") })(c.src[0]), vFlatInt)
		},
		ref: vRefPass},

	// ---- GroupBy ----------------------------------------------------------
	// GroupBy followed by MergeAll gives the source back, in order, with its
	// terminal (TestOperatorTransformationGroupBy pins exactly this composition).
	{name: "GroupBy_MergeAll", nsrc: 1, cbs: []string{"k"},
		mk: func(c *vCtx) vPipeline {
			groups := GroupBy(func(v int64) int64 { vFP("k"); return vUFInt("k", v) })(c.src[0])
			return vPipe(MergeAll[int64]()(groups), vFlatInt)
		},
		ref: vRefPass},
	{name: "GroupByI_MergeAll", nsrc: 1, cbs: []string{"k"},
		mk: func(c *vCtx) vPipeline {
			groups := GroupByI(func(v int64, i int64) int64 { vFP("k"); return vUFInt("k", v, i) })(c.src[0])
			return vPipe(MergeAll[int64]()(groups), vFlatInt)
		},
		ref: vRefPass},

	// ---- Serialize --------------------------------------------------------
	{name: "Serialize", nsrc: 1,
		mk:  func(c *vCtx) vPipeline { return vPipe(Serialize[int64]()(c.src[0]), vFlatInt) },
		ref: vRefPass},
}

// vErrLib stands for "some library-generated error" (code 9 in vErrCode): any
// error that is none of vErrA/vErrB/vErrC compares equal to it.
var vErrLib = errors.New("verif: library-generated error")

func init() { vCatalog = append(vCatalog, vCatalogTransform...) }
