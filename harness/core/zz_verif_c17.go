package ro

import "context"

// C17: ToChannel hands out one channel carrying the materialised sequence in
// order, closed exactly once after the terminal or on unsubscription; no
// send-on-closed / double-close panic escapes (the engine reports any panic
// leaving a library goroutine as a crash).
func vC17ToChannel(L int) {
	in := vLegalScript("s", L)
	capa := vInt64("cap")
	vAssume(capa >= 0)
	vAssume(capa <= 2)
	p := &vProbe{name: "src"}
	var chans []<-chan Notification[int64]
	outDone := 0
	obs := ToChannel[int64](int(capa))(p)
	var sub Subscription
	vGo(func() {
		sub = obs.SubscribeWithContext(context.Background(), NewObserver(
			func(ch <-chan Notification[int64]) { chans = append(chans, ch) },
			func(err error) { outDone += 10 },
			func() { outDone++ },
		))
	})
	vQuiesce()
	vAdvance(2000000) // the operator subscribes its source after a 1ms pause
	vQuiesce()
	vAssert(len(chans) == 1, "ToChannel: not exactly one channel was handed out")
	vAssert(p.subs == 1, "ToChannel: the source was not subscribed")
	var got []Notification[int64]
	closed := false
	stopReading := vChoice("stop", L+3) // the consumer stops after this many receives
	vGo(func() {
		n := 0
		for n < stopReading {
			v, ok := <-chans[0]
			// a consumer is not necessarily back at the channel when the next notification comes:
			// this point lets the producer run first (and pins that order in the native replay)
			vYield()
			if !ok {
				closed = true
				return
			}
			got = append(got, v)
			n++
		}
	})
	unsubAt := vChoice("unsub", len(in)+2)
	vGo(func() {
		for i, st := range in {
			if i == unsubAt && sub != nil {
				sub.Unsubscribe()
			}
			if p.live > 0 {
				p.emit(st)
			}
		}
		if unsubAt == len(in) && sub != nil {
			sub.Unsubscribe()
		}
	})
	vQuiesce()
	// what was read is a prefix of the materialised sequence
	vAssert(len(got) <= len(in), "ToChannel: more notifications than the source emitted")
	acc := true
	for i, n := range got {
		st := in[i]
		switch st.kind {
		case vkNext:
			vAssert(n.Kind == KindNext, "ToChannel: notification kind out of order")
			acc = vAnd(acc, n.Value == st.v)
		case vkError:
			vAssert(n.Kind == KindError, "ToChannel: notification kind out of order")
		default:
			vAssert(n.Kind == KindComplete, "ToChannel: notification kind out of order")
		}
	}
	vAssert(acc, "ToChannel: values differ from the materialised sequence")
	if closed && unsubAt > len(in) && vEnd(in) != -1 {
		vAssert(len(got) == len(in), "ToChannel: the channel was closed before the terminal notification was delivered")
	}
	vReach("end")
}

func vhC17_tochannel_L2() { vC17ToChannel(2) }
func vhC17_tochannel_L3() { vC17ToChannel(3) }

// C17: FromChannel emits every value received until the channel is closed, then
// completes, and stops reading when unsubscribed.
func vC17FromChannel(L int) {
	n := vChoice("n", L+1)
	closeIt := vChoice("close", 2) == 1
	unsub := vChoice("unsub", 2) == 1
	ch := make(chan int64, vChoice("cap", 2))
	rec := &vRecorder{quiet: true}
	sub := FromChannel[int64](ch).SubscribeWithContext(context.Background(), vObs(rec, vFlatInt))
	var vals []int64
	for i := 0; i < n; i++ {
		vals = append(vals, vInt64("v"+vItoa(i)))
	}
	sent := 0
	vGo(func() {
		for _, v := range vals {
			ch <- v
			sent++
		}
		if closeIt {
			close(ch)
		}
	})
	if unsub {
		vGo(func() { sub.Unsubscribe() })
	}
	vQuiesce()
	vCheckGrammar("FromChannel", rec)
	acc := true
	k := 0
	for _, e := range rec.evs {
		if e.kind == vkNext {
			vAssert(k < len(vals), "FromChannel: more values than were sent")
			acc = vAnd(acc, e.vals[0] == vals[k])
			k++
		}
	}
	vAssert(acc, "FromChannel: emitted values differ from the values sent")
	if !unsub {
		vAssert(k == n, "FromChannel: a value received from the channel was not emitted")
		vAssert((rec.terminals() == 1) == closeIt, "FromChannel: completion does not follow the closing of the channel")
	}
	if unsub || closeIt {
		run, blk := vLive()
		vAssert(run+blk == 0, "FromChannel: the reader goroutine is left after unsubscription / close")
	}
	vReach("end")
}

func vhC17_fromchannel_L2() { vC17FromChannel(2) }
func vhC17_fromchannel_L3() { vC17FromChannel(3) }
