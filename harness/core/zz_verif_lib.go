package ro

// Shared harness building blocks: recorder, probe sources, scripts.
// Everything here is harness code (file prefix zz_verif): the engine does not
// count accesses to these objects as library accesses.

import (
	"context"
	"errors"
	"fmt"
)

const (
	vkNext     = 0
	vkError    = 1
	vkComplete = 2
)

var (
	vErrA = errors.New("verif: error A")
	vErrB = errors.New("verif: error B")
	vErrC = errors.New("verif: error C")
)

type vCtxKey struct{ name string }

var (
	vKeySub  = vCtxKey{"sub"}  // marker attached at subscription
	vKeyItem = vCtxKey{"item"} // per-item marker attached by probes
	vKeyMid  = vCtxKey{"mid"}  // marker attached mid-pipeline
)

// vErrCode maps an error to a small integer for traces and comparisons.
func vErrCode(err error) int64 {
	switch {
	case err == nil:
		return 0
	case errors.Is(err, vErrA):
		return 1
	case errors.Is(err, vErrB):
		return 2
	case errors.Is(err, vErrC):
		return 3
	}
	return 9
}

func vItoa(i int) string {
	if i < 0 {
		return "-" + vItoa(-i)
	}
	if i < 10 {
		return "0123456789"[i : i+1]
	}
	return vItoa(i/10) + "0123456789"[i%10:i%10+1]
}

// ---------------------------------------------------------------------------
// recorder

type vEv struct {
	kind   int
	vals   []int64
	err    error
	ctx    context.Context
	thread int
}

type vRecorder struct {
	name    string
	evs     []vEv
	inside  int
	overlap bool
	yield   bool // vYield inside every callback (concurrency harnesses)
	quiet   bool // no vTrace
	hook    func(r *vRecorder, kind int, idx int)
}

func (r *vRecorder) enter(kind int, vals []int64, err error, ctx context.Context) {
	if r.yield {
		// the entry of a callback is an observable action: another thread may get there first (the
		// engine only switches threads at scheduling points, and recording the event is not one)
		vYield()
	}
	r.inside++
	if r.inside > 1 {
		r.overlap = true
	}
	idx := len(r.evs)
	r.evs = append(r.evs, vEv{kind: kind, vals: vals, err: err, ctx: ctx, thread: vThread()})
	if !r.quiet {
		switch kind {
		case vkNext:
			vTrace(r.name+"n", vals...)
		case vkError:
			vTrace(r.name+"e", vErrCode(err))
		default:
			vTrace(r.name + "c")
		}
	}
	if r.yield {
		vYield()
	}
	if r.hook != nil {
		defer func() { r.inside-- }()
		r.hook(r, kind, idx)
		r.inside++
	}
	r.inside--
}

// vObs builds an observer of T that records into r; flat turns a value into int64s.
func vObs[T any](r *vRecorder, flat func(T) []int64) Observer[T] {
	return NewObserverWithContext(
		func(ctx context.Context, v T) { r.enter(vkNext, flat(v), nil, ctx) },
		func(ctx context.Context, err error) { r.enter(vkError, nil, err, ctx) },
		func(ctx context.Context) { r.enter(vkComplete, nil, nil, ctx) },
	)
}

func vFlatInt(v int64) []int64 { return []int64{v} }
func vFlatInt0(v int) []int64  { return []int64{int64(v)} }
func vFlatBool(v bool) []int64 {
	return []int64{vIte(v, 1, 0)}
}
func vFlatSlice(v []int64) []int64 {
	out := make([]int64, 0, len(v)+1)
	out = append(out, int64(len(v)))
	out = append(out, v...)
	return out
}

func (r *vRecorder) terminals() int {
	n := 0
	for _, e := range r.evs {
		if e.kind != vkNext {
			n++
		}
	}
	return n
}

func (r *vRecorder) nexts() int {
	n := 0
	for _, e := range r.evs {
		if e.kind == vkNext {
			n++
		}
	}
	return n
}

// vCheckGrammar asserts Next* (Error|Complete)? and nothing afterwards.
func vCheckGrammar(label string, r *vRecorder) {
	term := false
	for _, e := range r.evs {
		vAssert(!term, label+": notification delivered after a terminal notification")
		if e.kind != vkNext {
			term = true
		}
	}
}

// vSameEvents asserts that got equals want (kinds, value lists, error codes).
func vSameEvents(label string, got, want []vEv) {
	vAssert(len(got) == len(want), label+": number of notifications differs from the reference")
	acc := true
	for i := range got {
		vAssert(got[i].kind == want[i].kind, label+": notification kind differs from the reference at position "+vItoa(i))
		if got[i].kind == vkError {
			vAssert(vErrCode(got[i].err) == vErrCode(want[i].err), label+": error differs from the reference")
		}
		vAssert(len(got[i].vals) == len(want[i].vals), label+": value shape differs from the reference at position "+vItoa(i))
		for j := range got[i].vals {
			acc = vAnd(acc, got[i].vals[j] == want[i].vals[j])
		}
	}
	vAssert(acc, label+": delivered values differ from the reference")
}

// ---------------------------------------------------------------------------
// scripts

type vStep struct {
	kind int
	v    int64
}

// vRogueScript: L steps over {Next, Error, Complete}, continuing after terminals.
func vRogueScript(prefix string, L int) []vStep {
	s := make([]vStep, L)
	for i := 0; i < L; i++ {
		s[i].kind = vChoice(prefix+"k"+vItoa(i), 3)
		if s[i].kind == vkNext {
			s[i].v = vInt64(prefix + "v" + vItoa(i))
		}
	}
	return s
}

// vLegalScript: n<=L values then an ending in {complete, error, none}.
// The returned slice holds the values followed by at most one terminal step.
func vLegalScript(prefix string, L int) []vStep {
	n := vChoice(prefix+"n", L+1)
	end := vChoice(prefix+"end", 3)
	s := make([]vStep, 0, n+1)
	for i := 0; i < n; i++ {
		s = append(s, vStep{vkNext, vInt64(prefix + "v" + vItoa(i))})
	}
	switch end {
	case 0:
		s = append(s, vStep{kind: vkComplete})
	case 1:
		s = append(s, vStep{kind: vkError})
	}
	return s
}

func vEmit(d Observer[int64], ctx context.Context, st vStep) {
	switch st.kind {
	case vkNext:
		d.NextWithContext(ctx, st.v)
	case vkError:
		d.ErrorWithContext(ctx, vErrA)
	default:
		d.CompleteWithContext(ctx)
	}
}

// ---------------------------------------------------------------------------
// probe source: implements Observable[int64] directly, so whatever it emits
// really reaches the operator's observer (no subscriber in between).

type vProbe struct {
	name          string
	subs          int
	live          int // subscriptions neither unsubscribed nor ended by the source's own terminal
	teardowns     int
	torn          []int  // per subscription: number of times its teardown ran
	ended         []bool // per subscription: the source emitted its own terminal
	ctxs          []context.Context
	dests         []Observer[int64]
	script        []vStep   // played synchronously inside Subscribe when cold
	scripts       [][]vStep // if set: the n-th subscription plays scripts[n] (Complete when exhausted)
	objs          []Subscription
	closing       []bool
	overlap       bool // a subscription was made while an earlier one was still live
	unreleased    bool // a subscription was made before the teardown of an earlier one had run
	maxLive       int  // the largest number of simultaneously live subscriptions seen
	yieldSub      bool // vYield inside SubscribeWithContext (widens the window for concurrent subscribers)
	yieldEmit     bool // vYield before each emission of a cold script (concurrent subscriptions interleave)
	cold          bool
	mlog          *[]vMStep // multi-source driver: what this probe emits by itself at subscription time is logged here
	midx          int       // its source index there
	yieldTeardown bool      // vYield at the start of every teardown (makes "released before ..." observable)
	panicTeardown bool      // the teardown of every subscription of this probe panics (after doing its work)
	pend          [][]vStep // asyncPlay: per subscription, the steps not yet emitted
	asyncOwn      bool      // asyncPlay: each attempt plays its script from its own thread instead of being driven
	nilError      bool      // an error step is emitted as Error(nil)
	asyncPlay     bool      // scripts are played from a thread of their own after Subscribe has returned
	syncTerm      int       // if set: the next subscription emits this terminal synchronously inside Subscribe (once)
	itemCtx       bool      // attach a per-item marker to the context of each Next
}

var _ Observable[int64] = (*vProbe)(nil)

func (p *vProbe) Subscribe(d Observer[int64]) Subscription {
	return p.SubscribeWithContext(context.Background(), d)
}

func (p *vProbe) register(ctx context.Context, d Observer[int64]) (int, func()) {
	i := p.subs
	if p.live > 0 {
		p.overlap = true
	}
	for j := 0; j < i; j++ {
		// an earlier subscription that has neither been torn down nor closed by the probe itself
		if p.torn[j] == 0 && !p.closing[j] {
			p.unreleased = true
		}
	}
	p.subs++
	p.live++
	if p.live > p.maxLive {
		p.maxLive = p.live
	}
	p.closing = append(p.closing, false)
	p.ctxs = append(p.ctxs, ctx)
	p.dests = append(p.dests, d)
	p.torn = append(p.torn, 0)
	p.ended = append(p.ended, false)
	return i, func() {
		if p.closing[i] {
			return // the source closes its own subscription after its terminal
		}
		if p.yieldTeardown {
			vYield() // releasing a source takes time: whoever was told "it is over" may run first
		}
		p.teardowns++
		p.torn[i]++
		if p.torn[i] == 1 && !p.ended[i] {
			p.live--
		}
		if p.panicTeardown {
			panic(vErrB)
		}
	}
}

func (p *vProbe) SubscribeWithContext(ctx context.Context, d Observer[int64]) Subscription {
	i, teardown := p.register(ctx, d)
	sub := NewSubscription(teardown)
	p.objs = append(p.objs, sub)
	if p.yieldSub {
		vYield()
	}
	p.play(i)
	return sub
}

// play emits what subscription i gets at subscription time (both probe flavours).
func (p *vProbe) play(i int) {
	if p.syncTerm != 0 {
		k := p.syncTerm
		p.syncTerm = 0
		p.emitAt(i, vStep{kind: k})
	} else if p.scripts != nil && p.asyncPlay {
		// the attempt's notifications are emitted later, by the harness (vDrive), from another
		// thread than the one that subscribed
		steps := []vStep{{kind: vkComplete}}
		if i < len(p.scripts) {
			steps = p.scripts[i]
		}
		if p.asyncOwn {
			// ... or right away, from a thread of the attempt's own (it may end before the
			// subscriber has done anything with the subscription it was handed)
			vGo(func() {
				for _, st := range steps {
					vYield()
					if p.torn[i] == 0 {
						p.emitAt(i, st)
					}
				}
			})
		} else {
			for len(p.pend) <= i {
				p.pend = append(p.pend, nil)
			}
			p.pend[i] = append([]vStep{}, steps...)
		}
	} else if p.scripts != nil {
		if i < len(p.scripts) {
			for _, st := range p.scripts[i] {
				p.emitAt(i, st)
			}
		} else {
			p.emitAt(i, vStep{kind: vkComplete})
		}
	} else if p.cold {
		for _, st := range p.script {
			if p.yieldEmit {
				vYield()
			}
			if p.mlog != nil {
				*p.mlog = append(*p.mlog, vMStep{src: p.midx, kind: st.kind, v: st.v})
			}
			p.emitAt(i, st)
		}
	}
}

func (p *vProbe) emitAt(i int, st vStep) {
	ctx := p.ctxs[i]
	if p.itemCtx && st.kind == vkNext {
		ctx = context.WithValue(ctx, vKeyItem, st.v)
	}
	if st.kind != vkNext && !p.ended[i] {
		// a source that has emitted its own terminal holds nothing any more
		if p.torn[i] == 0 {
			p.live--
		}
		p.ended[i] = true
	}
	if p.nilError && st.kind == vkError {
		p.dests[i].ErrorWithContext(ctx, nil)
	} else {
		vEmit(p.dests[i], ctx, st)
	}
	if st.kind != vkNext && i < len(p.objs) && p.objs[i] != nil && !p.closing[i] {
		// like every real source, the probe's subscription is closed once it has terminated
		p.closing[i] = true
		p.objs[i].Unsubscribe()
	}
}

// vDrive (asyncPlay): emits the pending steps one at a time, each after everything else has come
// to rest — so whoever waits for the attempt to end is parked when it does end.
func (p *vProbe) vDrive() {
	for n := 0; n < 64; n++ {
		vQuiesce()
		k := -1
		for i := range p.pend {
			if len(p.pend[i]) > 0 {
				k = i
			}
		}
		if k < 0 {
			return
		}
		st := p.pend[k][0]
		p.pend[k] = p.pend[k][1:]
		if p.torn[k] == 0 && !p.ended[k] {
			p.emitAt(k, st)
		}
	}
}

// emit sends a step to the most recent subscriber (hot use).
func (p *vProbe) emit(st vStep) {
	if len(p.dests) == 0 {
		return
	}
	p.emitAt(len(p.dests)-1, st)
}

// maxTorn is the largest number of times one subscription's teardown ran.
func (p *vProbe) maxTorn() int {
	m := 0
	for _, n := range p.torn {
		if n > m {
			m = n
		}
	}
	return m
}

// vSubProbe is the second flavour: a regular unsafe observable (subscriber path).
func vSubProbe(p *vProbe) Observable[int64] {
	return NewUnsafeObservableWithContext(func(ctx context.Context, d Observer[int64]) Teardown {
		i, teardown := p.register(ctx, d)
		p.objs = append(p.objs, nil) // the subscriber created by the library closes itself
		p.play(i)
		return teardown
	})
}

// vHooks installs counting stubs for the two global hooks and returns the counters.
type vHookCounts struct {
	dropped   int
	unhandled int
	lastUnh   error
}

func vInstallHooks() *vHookCounts {
	h := &vHookCounts{}
	OnDroppedNotification = func(ctx context.Context, n fmt.Stringer) { h.dropped++ }
	OnUnhandledError = func(ctx context.Context, err error) { h.unhandled++; h.lastUnh = err }
	return h
}

// ---------------------------------------------------------------------------
// fault plan: the idx-th invocation of the user callback named pos panics with
// an error value (kind 0) or an arbitrary value (kind 1).

type vFaultPlan struct {
	pos         string
	idx         int
	kind        int
	counts      map[string]int
	fired       int
	rec         *vRecorder
	termsAtFire int // terminals already delivered downstream when the fault fired
}

var vFault *vFaultPlan

func vFP(pos string) {
	f := vFault
	if f == nil {
		return
	}
	n := f.counts[pos]
	f.counts[pos] = n + 1
	if f.pos == pos && f.idx == n {
		f.fired++
		if f.rec != nil {
			f.termsAtFire = f.rec.terminals()
		}
		if f.kind == 0 {
			panic(vErrB)
		}
		panic("verif: arbitrary panic value")
	}
}

// vRawObserver is a hand-written Observer[int64] with no closed flag of its own:
// whatever reaches it is recorded (NewObserver-built observers drop late
// notifications themselves and so mask a subscriber that lets them through).
type vRawObserver struct{ r *vRecorder }

var _ Observer[int64] = (*vRawObserver)(nil)

func (o *vRawObserver) Next(v int64) { o.NextWithContext(context.Background(), v) }
func (o *vRawObserver) NextWithContext(ctx context.Context, v int64) {
	o.r.enter(vkNext, []int64{v}, nil, ctx)
}
func (o *vRawObserver) Error(err error) { o.ErrorWithContext(context.Background(), err) }
func (o *vRawObserver) ErrorWithContext(ctx context.Context, err error) {
	o.r.enter(vkError, nil, err, ctx)
}
func (o *vRawObserver) Complete()                               { o.CompleteWithContext(context.Background()) }
func (o *vRawObserver) CompleteWithContext(ctx context.Context) { o.r.enter(vkComplete, nil, nil, ctx) }
func (o *vRawObserver) IsClosed() bool                          { return false }
func (o *vRawObserver) HasThrown() bool                         { return false }
func (o *vRawObserver) IsCompleted() bool                       { return false }

// vRawObs is the generic form of vRawObserver (no closed flag of its own).
type vRawObs[T any] struct {
	r    *vRecorder
	flat func(T) []int64
}

func (o *vRawObs[T]) Next(v T) { o.NextWithContext(context.Background(), v) }
func (o *vRawObs[T]) NextWithContext(ctx context.Context, v T) {
	o.r.enter(vkNext, o.flat(v), nil, ctx)
}
func (o *vRawObs[T]) Error(err error) { o.ErrorWithContext(context.Background(), err) }
func (o *vRawObs[T]) ErrorWithContext(ctx context.Context, err error) {
	o.r.enter(vkError, nil, err, ctx)
}
func (o *vRawObs[T]) Complete()                               { o.CompleteWithContext(context.Background()) }
func (o *vRawObs[T]) CompleteWithContext(ctx context.Context) { o.r.enter(vkComplete, nil, nil, ctx) }
func (o *vRawObs[T]) IsClosed() bool                          { return false }
func (o *vRawObs[T]) HasThrown() bool                         { return false }
func (o *vRawObs[T]) IsCompleted() bool                       { return false }

// vUseRaw makes vPipe attach a raw observer instead of a NewObserver-built one.
var vUseRaw bool
