package ro

import (
	"context"
	"time"
)

// C09 for operators that store or hand off notifications (Delay, ObserveOn,
// SubscribeOn, Timeout, ThrottleTime): every source value is emitted with its
// own context marker (vKeyItem = the value) on top of the subscription marker;
// each value must be delivered with the context it was emitted with, and the
// subscription marker must be visible on every callback.
func vC09Async(n int) {
	which := vChoice("op", 5)
	m := vInt64("marker")
	ctx0 := context.WithValue(context.Background(), vKeySub, m)
	p := &vProbe{name: "src", itemCtx: true}
	d := int64(1000)
	var obs Observable[int64]
	name := ""
	switch which {
	case 0:
		name = "Delay"
		obs = Delay[int64](time.Duration(d))(p)
	case 1:
		name = "ObserveOn"
		obs = ObserveOn[int64](2)(p)
	case 2:
		name = "SubscribeOn"
		obs = SubscribeOn[int64](2)(p)
	case 3:
		name = "Timeout"
		obs = Timeout[int64](time.Duration(d))(p)
	default:
		name = "ThrottleTime"
		obs = ThrottleTime[int64](time.Duration(d))(p)
	}
	rec := &vRecorder{quiet: true}
	vGo(func() { obs.SubscribeWithContext(ctx0, vObs(rec, vFlatInt)) })
	vQuiesce()
	vAssert(p.subs == 1, name+": the source was not subscribed")
	got, ok := p.ctxs[0].Value(vKeySub).(int64)
	vAssert(ok, name+": the source was not subscribed with the context given to SubscribeWithContext")
	vAssert(got == m, name+": the source was subscribed with a different context value")
	for i := 0; i < n; i++ {
		// gaps: 0 (a burst: equal deadlines), or more than the duration
		if vChoice("gap"+vItoa(i), 2) == 1 {
			vAdvance(d + 1)
			vQuiesce()
		}
		if p.live > 0 {
			p.emit(vStep{vkNext, int64(100 + i)})
		}
	}
	if vChoice("end", 2) == 0 && p.live > 0 {
		p.emit(vStep{kind: vkComplete})
	}
	vAdvance(d + 1)
	vQuiesce()
	for _, e := range rec.evs {
		vAssert(e.ctx != nil, name+": a callback was invoked with a nil context")
		sv, ok := e.ctx.Value(vKeySub).(int64)
		vAssert(ok, name+": a callback context lost the value attached at subscription")
		vAssert(sv == m, name+": a callback context carries a different subscription value")
		if e.kind == vkNext {
			iv, ok := e.ctx.Value(vKeyItem).(int64)
			vAssert(ok, name+": a stored value was delivered without the context it was emitted with")
			vAssert(iv == e.vals[0], name+": a stored value was delivered with the context of another notification")
		}
	}
	vReach("end")
}

func vhC09_async_n2() { vC09Async(2) }
func vhC09_async_n3() { vC09Async(3) }
