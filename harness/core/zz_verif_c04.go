package ro

import "context"

// C04(a): every catalogue entry with a reference model, fed by a legal script
// (n <= L symbolic values then completion | error | nothing) from a cold or a
// hot probe: the recorded notifications must equal the reference, element by
// element, terminal included.
func vC04Ref(L int) {
	op := &vCatalog[vChoice("entry", len(vCatalog))]
	if op.ref == nil || op.nsrc > 1 {
		vAssume(false)
	}
	var in []vStep
	if op.nsrc == 1 {
		in = vLegalScript("s", L)
	}
	p := &vProbe{name: "src"}
	hot := op.nsrc == 1 && vChoice("hot", 2) == 1
	if !hot {
		p.cold = true
		p.script = in
	}
	c := &vCtx{src: []Observable[int64]{p}, L: L}
	pipe := op.mk(c)
	rec := &vRecorder{}
	sub := pipe(context.Background(), rec)
	if hot {
		for _, st := range in {
			p.emit(st)
		}
	}
	_ = sub
	want := op.ref(c, in)
	vCheckGrammar(op.name, rec)
	vSameEvents(op.name, rec.evs, want)
	vReach("end")
}

func vhC04_ref_L2() { vC04Ref(2) }
func vhC04_ref_L3() { vC04Ref(3) }
func vhC04_ref_L4() { vC04Ref(4) }
func vhC04_ref_L5() { vC04Ref(5) }
func vhC04_ref_L6() { vC04Ref(6) }
