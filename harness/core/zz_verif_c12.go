package ro

import "context"

// C12: a pipeline built once and subscribed twice (cold deterministic source)
// produces the same notifications both times and the same as a freshly built
// one; building touches no source; each subscription subscribes the source at
// most once.
func vC12Reuse(L int) {
	op := &vCatalog[vChoice("entry", len(vCatalog))]
	if op.nsrc > 1 {
		vAssume(false)
	}
	var in []vStep
	if op.nsrc == 1 {
		in = vLegalScript("s", L)
	}
	p := &vProbe{name: "src", cold: true, script: in}
	c := &vCtx{src: []Observable[int64]{p}, L: L}
	pipe := op.mk(c)
	vAssert(p.subs == 0, op.name+": the source was subscribed at construction time")
	r1 := &vRecorder{name: "a"}
	pipe(context.Background(), r1)
	s1 := p.subs
	vAssert(s1 <= 1, op.name+": the source was subscribed more than once by one subscription")
	r2 := &vRecorder{name: "b"}
	pipe(context.Background(), r2)
	vAssert(p.subs-s1 == s1, op.name+": the second subscription subscribed the source a different number of times")
	vSameEvents(op.name+" (re-subscription)", r2.evs, r1.evs)
	vReach("end")
}

func vhC12_reuse_L2() { vC12Reuse(2) }
func vhC12_reuse_L3() { vC12Reuse(3) }
