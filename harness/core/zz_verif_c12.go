package ro

import (
	"context"
	"strings"
)

// C12: a pipeline built once and subscribed twice (cold deterministic source)
// produces the same notifications both times and the same as a freshly built
// one; building touches no source; each subscription subscribes the source at
// most once.
func vC12Reuse(L int) {
	op := &vCatalog[vChoice("entry", len(vCatalog))]
	if op.nsrc > 1 {
		vAssume(false)
	}
	var in []vStep
	if op.nsrc == 1 {
		in = vLegalScript("s", L)
	}
	p := &vProbe{name: "src", cold: true, script: in}
	c := &vCtx{src: []Observable[int64]{p}, L: L}
	pipe := op.mk(c)
	vAssert(p.subs == 0, op.name+": the source was subscribed at construction time")
	r1 := &vRecorder{name: "a"}
	pipe(context.Background(), r1)
	s1 := p.subs
	vAssert(s1 <= 1, op.name+": the source was subscribed more than once by one subscription")
	r2 := &vRecorder{name: "b"}
	pipe(context.Background(), r2)
	vAssert(p.subs-s1 == s1, op.name+": the second subscription subscribed the source a different number of times")
	vSameEvents(op.name+" (re-subscription)", r2.evs, r1.evs)
	vReach("end")
}

func vhC12_reuse_L2() { vC12Reuse(2) }
func vhC12_reuse_L3() { vC12Reuse(3) }

// C12 (concurrent subscriptions): one cold pipeline subscribed from two threads at once; the
// source's emissions of the two subscriptions interleave (it yields before each emission).  Each
// subscriber must get exactly what a single subscription of a fresh pipeline gets.
func vC12Conc(L int) {
	op := &vCatalog[vChoice("entry", len(vCatalog))]
	if op.nsrc != 1 || strings.HasPrefix(op.name, "ToMap") {
		// ToMap*: the harness's own key log (used to flatten the emitted map in insertion order)
		// is shared by the subscriptions of one pipeline, so interleaved subscriptions would
		// differ through the harness, not through the operator
		vAssume(false)
	}
	in := vLegalScript("s", L)
	if vEnd(in) == -1 {
		vAssume(false)
	}
	p := &vProbe{name: "src", cold: true, script: in, yieldEmit: true}
	c := &vCtx{src: []Observable[int64]{p}, L: L}
	pipe := op.mk(c)
	recs := []*vRecorder{{name: "a"}, {name: "b"}}
	for t := 0; t < 2; t++ {
		t := t
		vGo(func() { pipe(context.Background(), recs[t]) })
	}
	vQuiesce()
	// the expectation: one more subscription of the same pipeline, alone (vhC12_reuse shows that
	// sequential subscriptions agree with each other)
	want := &vRecorder{name: "w"}
	pipe(context.Background(), want)
	for _, r := range recs {
		vSameEvents(op.name+" (concurrent subscriptions of one pipeline)", r.evs, want.evs)
	}
	vReach("end")
}

func vhC12_conc_L2() { vC12Conc(2) }
func vhC12_conc_L3() { vC12Conc(3) }

// C12 (overlapping subscriptions over a hot source): subscriber A arrives, the source emits,
// subscriber B arrives later, the source emits to both, A leaves, the source emits to B, B leaves.
// Each subscriber must get exactly what the entry's reference gives for the values emitted while
// it was subscribed, and leaving releases that subscriber's own upstream subscription, exactly
// once, and nobody else's (C03).
func vC12Overlap(L int) {
	op := &vCatalog[vChoice("entry", len(vCatalog))]
	if op.nsrc != 1 {
		vAssume(false)
	}
	p := &vProbe{name: "src"}
	c := &vCtx{src: []Observable[int64]{p}, L: L}
	pipe := op.mk(c)
	ra, rb := &vRecorder{name: "a"}, &vRecorder{name: "b"}
	var inA, inB []vStep
	to := func(i int, v int64) bool {
		if i < len(p.dests) && p.torn[i] == 0 && !p.ended[i] {
			p.emitAt(i, vStep{vkNext, v})
			return true
		}
		return false
	}
	subA := pipe(context.Background(), ra)
	if p.subs != 1 {
		vAssume(false) // entries that do not subscribe their source exactly once per subscription
	}
	for i := 0; i < vChoice("pre", 2); i++ {
		v := vInt64("vp" + vItoa(i))
		if to(0, v) {
			inA = append(inA, vStep{vkNext, v})
		}
	}
	subB := pipe(context.Background(), rb)
	if p.subs != 2 {
		vAssume(false)
	}
	nBoth := vChoice("both", L+1)
	for i := 0; i < nBoth; i++ {
		v := vInt64("vb" + vItoa(i))
		if to(0, v) {
			inA = append(inA, vStep{vkNext, v})
		}
		if to(1, v) {
			inB = append(inB, vStep{vkNext, v})
		}
	}
	subA.Unsubscribe()
	vAssert(p.torn[0] == 1 || p.ended[0], op.name+": leaving did not release the subscriber's own upstream subscription (overlapping subscriptions of one pipeline)")
	if rb.terminals() == 0 {
		vAssert(p.torn[1] == 0, op.name+": one subscriber leaving released the upstream subscription of another (overlapping subscriptions of one pipeline)")
	}
	for i := 0; i < vChoice("post", 2); i++ {
		v := vInt64("vq" + vItoa(i))
		if to(1, v) {
			inB = append(inB, vStep{vkNext, v})
		}
	}
	subB.Unsubscribe()
	vAssert(p.torn[1] <= 1 && p.torn[0] <= 1, op.name+": an upstream subscription was released more than once (overlapping subscriptions of one pipeline)")
	vAssert(p.live == 0, op.name+": an upstream subscription is still held after both subscribers left (overlapping subscriptions of one pipeline)")
	if op.ref != nil {
		vSameEvents(op.name+" (first of two overlapping subscriptions)", ra.evs, op.ref(c, inA))
		vSameEvents(op.name+" (second of two overlapping subscriptions)", rb.evs, op.ref(c, inB))
	}
	vReach("end")
}

func vhC12_overlap_L1() { vC12Overlap(1) }
func vhC12_overlap_L2() { vC12Overlap(2) }

// C12 (re-subscription with different input): a pipeline built once is subscribed twice and the
// source plays a different script each time; each subscription must give what the entry's
// reference gives for ITS script (state kept from the first run — a map, a buffer, a counter —
// shows as soon as the second run differs from the first).
func vC12Reuse2(L int) {
	op := &vCatalog[vChoice("entry", len(vCatalog))]
	if op.nsrc != 1 || op.ref == nil {
		vAssume(false)
	}
	a, b := vLegalScript("a", L), vLegalScript("b", L)
	p := &vProbe{name: "src", scripts: [][]vStep{a, b}}
	c := &vCtx{src: []Observable[int64]{p}, L: L}
	pipe := op.mk(c)
	r1 := &vRecorder{name: "a"}
	pipe(context.Background(), r1)
	if p.subs != 1 {
		vAssume(false)
	}
	vSameEvents(op.name+" (first subscription)", r1.evs, op.ref(c, a))
	r2 := &vRecorder{name: "b"}
	pipe(context.Background(), r2)
	if p.subs != 2 {
		vAssume(false)
	}
	vSameEvents(op.name+" (second subscription, different input)", r2.evs, op.ref(c, b))
	vReach("end")
}

func vhC12_reuse2_L2() { vC12Reuse2(2) }
func vhC12_reuse2_L3() { vC12Reuse2(3) }
