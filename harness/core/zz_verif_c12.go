package ro

import (
	"context"
	"strings"
)

// C12: a pipeline built once and subscribed twice (cold deterministic source)
// produces the same notifications both times and the same as a freshly built
// one; building touches no source; each subscription subscribes the source at
// most once.
func vC12Reuse(L int) {
	op := &vCatalog[vChoice("entry", len(vCatalog))]
	if op.nsrc > 1 {
		vAssume(false)
	}
	var in []vStep
	if op.nsrc == 1 {
		in = vLegalScript("s", L)
	}
	p := &vProbe{name: "src", cold: true, script: in}
	c := &vCtx{src: []Observable[int64]{p}, L: L}
	pipe := op.mk(c)
	vAssert(p.subs == 0, op.name+": the source was subscribed at construction time")
	r1 := &vRecorder{name: "a"}
	pipe(context.Background(), r1)
	s1 := p.subs
	vAssert(s1 <= 1, op.name+": the source was subscribed more than once by one subscription")
	r2 := &vRecorder{name: "b"}
	pipe(context.Background(), r2)
	vAssert(p.subs-s1 == s1, op.name+": the second subscription subscribed the source a different number of times")
	vSameEvents(op.name+" (re-subscription)", r2.evs, r1.evs)
	vReach("end")
}

func vhC12_reuse_L2() { vC12Reuse(2) }
func vhC12_reuse_L3() { vC12Reuse(3) }

// C12 (concurrent subscriptions): one cold pipeline subscribed from two threads at once; the
// source's emissions of the two subscriptions interleave (it yields before each emission).  Each
// subscriber must get exactly what a single subscription of a fresh pipeline gets.
func vC12Conc(L int) {
	op := &vCatalog[vChoice("entry", len(vCatalog))]
	if op.nsrc != 1 || strings.HasPrefix(op.name, "ToMap") {
		// ToMap*: the harness's own key log (used to flatten the emitted map in insertion order)
		// is shared by the subscriptions of one pipeline, so interleaved subscriptions would
		// differ through the harness, not through the operator
		vAssume(false)
	}
	in := vLegalScript("s", L)
	if vEnd(in) == -1 {
		vAssume(false)
	}
	p := &vProbe{name: "src", cold: true, script: in, yieldEmit: true}
	c := &vCtx{src: []Observable[int64]{p}, L: L}
	pipe := op.mk(c)
	recs := []*vRecorder{{name: "a"}, {name: "b"}}
	for t := 0; t < 2; t++ {
		t := t
		vGo(func() { pipe(context.Background(), recs[t]) })
	}
	vQuiesce()
	// the expectation: one more subscription of the same pipeline, alone (vhC12_reuse shows that
	// sequential subscriptions agree with each other)
	want := &vRecorder{name: "w"}
	pipe(context.Background(), want)
	for _, r := range recs {
		vSameEvents(op.name+" (concurrent subscriptions of one pipeline)", r.evs, want.evs)
	}
	vReach("end")
}

func vhC12_conc_L2() { vC12Conc(2) }
func vhC12_conc_L3() { vC12Conc(3) }
