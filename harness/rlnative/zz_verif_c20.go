package roratelimit

import (
	"context"
	"time"
)

// C20 (native limiter): the real composition GroupBy -> MergeMap(WindowWhen(Interval)
// -> Take -> MergeAll) under the logical clock, 2 keys.  Items emitted at one
// instant form one window per key: exactly min(count_k, quota) of each key
// pass, in their original order, none duplicated, keys independent; after a
// full window has elapsed the quota is available again; completion / error of
// the source is propagated.

func vKeyOf(v int64) string {
	if vUFBool("key", v) {
		return "a"
	}
	return "b"
}

func vC20Native(n int) {
	quota := vInt64("quota")
	vAssume(quota >= 1)
	vAssume(quota <= 2)
	window := vInt64("window")
	vAssume(window > 0)
	vAssume(window <= 1<<30)
	src := &vSource{}
	obs := NewRateLimiter[int64](quota, time.Duration(window), vKeyOf)(src.obs())
	rec := &vRecorder{name: "g"}
	vGo(func() { obs.SubscribeWithContext(context.Background(), vObs(rec, vFlatInt)) })
	vQuiesce()
	bursts := 1 + vChoice("bursts", 2)
	var want []vEv
	id := int64(0)
	for b := 0; b < bursts; b++ {
		cnt := map[string]int64{}
		for i := 0; i < n; i++ {
			v := vInt64("v" + vItoa(b) + "_" + vItoa(i))
			// distinct payloads make duplication visible
			_ = id
			src.emit(vStep{vkNext, v})
			vQuiesce()
			k := vKeyOf(v)
			cnt[k]++
			if cnt[k] <= quota {
				want = append(want, vEv{kind: vkNext, vals: []int64{v}})
			}
		}
		if b+1 < bursts {
			// a full window (and a bit) elapses: every key's quota is available again
			vAdvance(window)
			vAdvance(1)
			vQuiesce()
		}
	}
	end := vChoice("end", 2)
	if end == 0 {
		src.emit(vStep{kind: vkComplete})
		want = append(want, vEv{kind: vkComplete})
	} else {
		src.emit(vStep{kind: vkError})
		want = append(want, vEv{kind: vkError, err: vErrA})
	}
	vQuiesce()
	vCheckGrammar("native limiter", rec)
	vSameEvents("native limiter", rec.evs, want)
	vReach("end")
}

func vhC20_native_n2() { vC20Native(2) }
func vhC20_native_n3() { vC20Native(3) }
