package roratelimit

import (
	"context"
	"time"

	"github.com/samber/ro"
)

// C20 (native limiter): the real composition GroupBy -> MergeMap(WindowWhen(Interval)
// -> Take -> MergeAll) under the logical clock, 2 keys.  Items emitted at one
// instant form one window per key: exactly min(count_k, quota) of each key
// pass, in their original order, none duplicated, keys independent; after a
// full window has elapsed the quota is available again; completion / error of
// the source is propagated.

func vKeyOf(v int64) string {
	if vUFBool("key", v) {
		return "a"
	}
	return "b"
}

func vC20Native(n int) {
	quota := vInt64("quota")
	vAssume(quota >= 1)
	vAssume(quota <= 2)
	window := vInt64("window")
	vAssume(window > 0)
	vAssume(window <= 1<<30)
	src := &vSource{}
	obs := NewRateLimiter[int64](quota, time.Duration(window), vKeyOf)(src.obs())
	rec := &vRecorder{name: "g"}
	vGo(func() { obs.SubscribeWithContext(context.Background(), vObs(rec, vFlatInt)) })
	vQuiesce()
	bursts := 1 + vChoice("bursts", 2)
	var want []vEv
	id := int64(0)
	for b := 0; b < bursts; b++ {
		cnt := map[string]int64{}
		for i := 0; i < n; i++ {
			v := vInt64("v" + vItoa(b) + "_" + vItoa(i))
			// distinct payloads make duplication visible
			_ = id
			src.emit(vStep{vkNext, v})
			vQuiesce()
			k := vKeyOf(v)
			cnt[k]++
			if cnt[k] <= quota {
				want = append(want, vEv{kind: vkNext, vals: []int64{v}})
			}
		}
		if b+1 < bursts {
			// a full window (and a bit) elapses: every key's quota is available again
			vAdvance(window)
			vAdvance(1)
			vQuiesce()
		}
	}
	end := vChoice("end", 2)
	if end == 0 {
		src.emit(vStep{kind: vkComplete})
		want = append(want, vEv{kind: vkComplete})
	} else {
		src.emit(vStep{kind: vkError})
		want = append(want, vEv{kind: vkError, err: vErrA})
	}
	vQuiesce()
	vCheckGrammar("native limiter", rec)
	vSameEvents("native limiter", rec.evs, want)
	vReach("end")
}

func vhC20_native_n2() { vC20Native(2) }
func vhC20_native_n3() { vC20Native(3) }

// C20 (native limiter, slow consumer): the final observer takes longer than a window to handle one
// item (the clock advances inside its callback), so a window boundary passes while an item is in
// flight.  No item is duplicated, the output keeps the input order, no key exceeds quota x windows.
func vC20NativeSlow(n int) {
	quota := vInt64("quota")
	vAssume(quota >= 1)
	vAssume(quota <= 2)
	window := int64(1000)
	src := &vSource{}
	obs := NewRateLimiter[int64](quota, time.Duration(window), vKeyOf)(src.obs())
	slowAt := vChoice("slowAt", n)
	var got []int64
	terminal := 0
	seen := 0
	vGo(func() {
		obs.SubscribeWithContext(context.Background(), ro.NewObserver(
			func(v int64) {
				got = append(got, v)
				if seen == slowAt {
					seen++
					vAdvance(window + 1) // a slow consumer: more than one window passes during this callback
					vQuiesce()
					return
				}
				seen++
			},
			func(err error) { terminal += 10 },
			func() { terminal++ },
		))
	})
	vQuiesce()
	var sent []int64
	for i := 0; i < n; i++ {
		v := int64(100 + i)
		sent = append(sent, v)
		src.emit(vStep{vkNext, v})
		vQuiesce()
	}
	src.emit(vStep{kind: vkComplete})
	vQuiesce()
	// the output is a subsequence of the input: nothing duplicated, order kept
	k := 0
	for _, v := range got {
		for k < len(sent) && sent[k] != v {
			k++
		}
		vAssert(k < len(sent), "native limiter: an item was duplicated or delivered out of order when a window boundary passed during a delivery")
		k++
	}
	cnt := map[string]int64{}
	for _, v := range got {
		cnt[vKeyOf(v)]++
	}
	for _, c := range cnt {
		vAssert(c <= 2*quota, "native limiter: more items of one key passed than the quota allows for the windows touched")
	}
	vAssert(terminal == 1, "native limiter: the completion of the source was not propagated")
	vReach("end")
}

func vhC20_nativeslow_n2() { vC20NativeSlow(2) }
func vhC20_nativeslow_n3() { vC20NativeSlow(3) }

// C20 (native limiter, producer and clock in different threads): the source emits from its own
// thread while a window boundary passes, so the per-key timer goroutine swaps windows while items
// are in flight.  Whatever the interleaving: the output is a subsequence of the input (nothing
// duplicated, order kept), no key exceeds quota x windows touched, and the completion arrives.
func vC20NativeConc(n int) {
	quota := int64(1 + vChoice("quota", 2))
	window := int64(1000)
	src := &vSource{}
	obs := NewRateLimiter[int64](quota, time.Duration(window), func(int64) string { return "a" })(src.obs()) // one key: the schedules of one group
	var got []int64
	terminal := 0
	vGo(func() {
		obs.SubscribeWithContext(context.Background(), ro.NewObserver(
			func(v int64) { got = append(got, v) },
			func(err error) { terminal += 10 },
			func() { terminal++ },
		))
	})
	vQuiesce()
	// a first item, alone: it creates its key's group, whose window timer starts now
	sent := []int64{99}
	src.emit(vStep{vkNext, 99})
	vQuiesce()
	for i := 0; i < n; i++ {
		sent = append(sent, int64(100+i))
	}
	endInside := vChoice("endInside", 2) == 1 // the producer also completes while the boundary passes
	vGo(func() {
		for _, v := range sent[1:] {
			vYield() // the producer pauses between items: the timer goroutine may run in between
			src.emit(vStep{vkNext, v})
		}
		if endInside {
			vYield()
			src.emit(vStep{kind: vkComplete})
		}
	})
	vAdvance(window + 1) // a window boundary passes while the producer is at work
	vQuiesce()
	if !endInside {
		src.emit(vStep{kind: vkComplete})
		vQuiesce()
	}
	k := 0
	for _, v := range got {
		for k < len(sent) && sent[k] != v {
			k++
		}
		vAssert(k < len(sent), "native limiter: an item was duplicated or delivered out of order while a window boundary passed during production")
		k++
	}
	vAssert(int64(len(got)) <= 2*quota, "native limiter: more items of one key passed than the quota allows for the windows touched")
	vAssert(terminal == 1, "native limiter: the completion of the source was not propagated")
	vReach("end")
}

func vhC20_nativeconc_n2() { vC20NativeConc(2) }
func vhC20_nativeconc_n3() { vC20NativeConc(3) }

// C20 (two overlapping subscriptions of one limited observable): every subscription limits its own
// stream; what one subscriber receives, and how much quota it has left, does not depend on another
// subscriber of the same observable being alive.  No window tick fires (the clock stands still).
func vC20Overlap(n int) {
	quota := int64(1 + vChoice("quota", 2))
	src := &vSource{}
	obs := NewRateLimiter[int64](quota, time.Duration(time.Hour), vKeyOf)(src.obs())
	ra, rb := &vRecorder{name: "a"}, &vRecorder{name: "b"}
	obs.SubscribeWithContext(context.Background(), vObs(ra, vFlatInt))
	vQuiesce()
	obs.SubscribeWithContext(context.Background(), vObs(rb, vFlatInt))
	vQuiesce()
	vAssert(src.subs == 2, "native limiter: two subscriptions did not subscribe the source twice")
	var wantA, wantB []vEv
	cntA, cntB := map[string]int64{}, map[string]int64{}
	for i := 0; i < n; i++ {
		v := vInt64("v" + vItoa(i))
		k := vKeyOf(v)
		if vChoice("to"+vItoa(i), 2) == 0 {
			vEmit(src.dests[0], src.ctxs[0], vStep{vkNext, v})
			cntA[k]++
			if cntA[k] <= quota {
				wantA = append(wantA, vEv{kind: vkNext, vals: []int64{v}})
			}
		} else {
			vEmit(src.dests[1], src.ctxs[1], vStep{vkNext, v})
			cntB[k]++
			if cntB[k] <= quota {
				wantB = append(wantB, vEv{kind: vkNext, vals: []int64{v}})
			}
		}
		vQuiesce()
	}
	vEmit(src.dests[0], src.ctxs[0], vStep{kind: vkComplete})
	vQuiesce()
	wantA = append(wantA, vEv{kind: vkComplete})
	vSameEvents("native limiter (first of two overlapping subscriptions)", ra.evs, wantA)
	vSameEvents("native limiter (second of two overlapping subscriptions, the first has completed)", rb.evs, wantB)
	vEmit(src.dests[1], src.ctxs[1], vStep{kind: vkComplete})
	vQuiesce()
	wantB = append(wantB, vEv{kind: vkComplete})
	vSameEvents("native limiter (second of two overlapping subscriptions)", rb.evs, wantB)
	vReach("end")
}

func vhC20_overlap_n2() { vC20Overlap(2) }
func vhC20_overlap_n3() { vC20Overlap(3) }
