package rotime

import (
	"errors"

	"github.com/samber/ro"
	"github.com/samber/ro/internal/verifrt/stubs/hook"
	stubtime "github.com/samber/ro/internal/verifrt/stubs/time"
)

// C18 (time plugin) with the standard time package replaced, for the plugin's source only, by the
// contract stub /verif/shim/stubs/time: an instant is an identity plus the location it is presented
// in, every function is an uninterpreted function of identities and parameters.  Checked: for every
// item the emitted value is what the wrapped function returns for THAT item with the operator's
// parameters in the right positions; a parse error ends the stream with Error; StartOfDay gives
// midnight of the item's own calendar day in the item's own location.

var vTexts = []string{"t0", "t1", "t2", "L0", "L1"}

func init() {
	hook.UFInt = vUFInt
	hook.UFBool = vUFBool
	hook.Yield = vYield
	hook.ID = func(s string) int64 {
		for i, t := range vTexts {
			if t == s {
				return int64(i)
			}
		}
		return -1
	}
}

var vLocs = []*stubtime.Location{stubtime.UTC, stubtime.Local, stubtime.FixedZone("x", 3600)}

func vPickTimes(n int) []stubtime.Time {
	var items []stubtime.Time
	for i := 0; i < n; i++ {
		items = append(items, stubtime.Time{ID: int64(10 + vChoice("t"+vItoa(i), 3)), Loc: vLocs[vChoice("l"+vItoa(i), len(vLocs))]})
	}
	return items
}

func vSameTime(a, b stubtime.Time) bool { return a.ID == b.ID && a.Loc == b.Loc }

func vC18Time(n int) {
	cnt := vChoice("n", n+1)
	switch vChoice("op", 7) {
	case 0:
		items := vPickTimes(cnt)
		d := vInt64("d")
		got, err := ro.Collect(Add(stubtime.Duration(d))(ro.FromSlice(items)))
		vAssert(err == nil && len(got) == len(items), "Add: number of values differs from the number of items")
		for i, it := range items {
			vAssert(vSameTime(got[i], stubtime.Time{ID: vUFInt("Time.Add", it.ID, d), Loc: it.Loc}), "Add: the emitted value is not what the wrapped function returns for that item and those parameters")
		}
	case 1:
		items := vPickTimes(cnt)
		y, m, d := vInt("y"), vInt("m"), vInt("dd")
		vAssume(y >= -3 && y <= 3 && m >= -13 && m <= 13 && d >= -40 && d <= 40)
		got, err := ro.Collect(AddDate(y, m, d)(ro.FromSlice(items)))
		vAssert(err == nil && len(got) == len(items), "AddDate: number of values differs from the number of items")
		for i, it := range items {
			vAssert(vSameTime(got[i], stubtime.Time{ID: vUFInt("Time.AddDate", it.ID, it.Loc.ID, int64(y), int64(m), int64(d)), Loc: it.Loc}), "AddDate: the emitted value is not what the wrapped function returns for that item and those parameters")
		}
	case 2:
		items := vPickTimes(cnt)
		layout := vTexts[3+vChoice("layout", 2)]
		got, err := ro.Collect(Format(layout)(ro.FromSlice(items)))
		vAssert(err == nil && len(got) == len(items), "Format: number of values differs from the number of items")
		for i, it := range items {
			vAssert(got[i] == it.Format(layout), "Format: the emitted value is not what the wrapped function returns for that item and that layout")
		}
	case 3:
		items := vPickTimes(cnt)
		loc := vLocs[vChoice("loc", len(vLocs))]
		got, err := ro.Collect(In(loc)(ro.FromSlice(items)))
		vAssert(err == nil && len(got) == len(items), "In: number of values differs from the number of items")
		for i, it := range items {
			vAssert(vSameTime(got[i], stubtime.Time{ID: it.ID, Loc: loc}), "In: the emitted value is not the item's instant presented in the requested location")
		}
	case 4, 5:
		inLoc := vChoice("inloc", 2) == 1
		layoutK := 3 + vChoice("layout", 2)
		layout := vTexts[layoutK]
		loc := vLocs[vChoice("loc", len(vLocs))]
		var texts []string
		var ids []int64
		for i := 0; i < cnt; i++ {
			k := vChoice("s"+vItoa(i), 3)
			texts = append(texts, vTexts[k])
			ids = append(ids, int64(k))
		}
		var got []stubtime.Time
		var err error
		name := "Parse"
		if inLoc {
			name = "ParseInLocation"
			got, err = ro.Collect(ParseInLocation[string](layout, loc)(ro.FromSlice(texts)))
		} else {
			got, err = ro.Collect(Parse[string](layout)(ro.FromSlice(texts)))
		}
		k := 0
		failed := false
		for _, id := range ids {
			var want stubtime.Time
			if inLoc {
				if vUFBool("ParseInLocation.err", int64(layoutK), id, loc.ID) {
					failed = true
					break
				}
				want = stubtime.Time{ID: vUFInt("ParseInLocation", int64(layoutK), id, loc.ID), Loc: loc}
			} else {
				if vUFBool("Parse.err", int64(layoutK), id) {
					failed = true
					break
				}
				l := stubtime.UTC
				if vUFBool("Parse.local", int64(layoutK), id) {
					l = stubtime.Local
				}
				want = stubtime.Time{ID: vUFInt("Parse", int64(layoutK), id), Loc: l}
			}
			vAssert(k < len(got), name+": a parsed item is missing")
			vAssert(vSameTime(got[k], want), name+": the emitted value is not what the wrapped function returns for that item and those parameters")
			k++
		}
		vAssert(len(got) == k, name+": more values than items parsed")
		if failed {
			vAssert(err != nil && errors.Is(err, stubtime.ErrParse), name+": a parse error did not surface as the Error notification that ends the stream")
		} else {
			vAssert(err == nil, name+": an error was reported although every item parsed")
		}
	default:
		items := vPickTimes(cnt)
		got, err := ro.Collect(StartOfDay()(ro.FromSlice(items)))
		vAssert(err == nil && len(got) == len(items), "StartOfDay: number of values differs from the number of items")
		for i, it := range items {
			y, m, d := it.Date()
			want := stubtime.Date(y, m, d, 0, 0, 0, 0, it.Loc)
			vAssert(vSameTime(got[i], want), "StartOfDay: the emitted value is not midnight of the item's own calendar day in the item's own location")
		}
	}
	vReach("end")
}

func vhC18_time_n2() { vC18Time(2) }
func vhC18_time_n3() { vC18Time(3) }
