package rostdio

import (
	"context"
	"io"

	"github.com/samber/ro"
)

// C18 (stdio plugin): readers emit chunks whose concatenation is the input;
// a delivered chunk is never modified afterwards (snapshot-at-delivery ==
// value-at-end); reader errors become Error notifications; the writer sink
// counts exactly the bytes written and propagates errors.

type vReader struct {
	chunks [][]byte
	i      int
	err    error // returned after the chunks (io.EOF or a failure)
	closed int
}

func (r *vReader) Read(p []byte) (int, error) {
	if r.i >= len(r.chunks) {
		return 0, r.err
	}
	n := copy(p, r.chunks[r.i])
	r.i++
	return n, nil
}

func (r *vReader) Close() error { r.closed++; return nil }

func vC18Reader(nchunks int) {
	k := vChoice("chunks", nchunks+1)
	rd := &vReader{err: io.EOF}
	if vChoice("fail", 2) == 1 {
		rd.err = vErrB
	}
	var input []byte
	for c := 0; c < k; c++ {
		sz := 1 + vChoice("sz"+vItoa(c), 2)
		ch := make([]byte, sz)
		for j := range ch {
			ch[j] = byte(vInt64("b" + vItoa(c) + "_" + vItoa(j)))
		}
		rd.chunks = append(rd.chunks, ch)
		input = append(input, ch...)
	}
	var refs [][]byte  // the delivered slices themselves
	var snaps [][]byte // their content at delivery
	terminal := 0
	var gotErr error
	sub := NewIOReader(rd).SubscribeWithContext(context.Background(), ro.NewObserver(
		func(b []byte) {
			refs = append(refs, b)
			snaps = append(snaps, append([]byte{}, b...))
		},
		func(err error) { terminal += 10; gotErr = err },
		func() { terminal++ },
	))
	var concat []byte
	for _, s := range snaps {
		concat = append(concat, s...)
	}
	vAssert(len(concat) == len(input), "NewIOReader: the concatenation of the chunks has a different length than the input")
	acc := true
	for i := range concat {
		acc = vAnd(acc, concat[i] == input[i])
	}
	vAssert(acc, "NewIOReader: the concatenation of the chunks differs from the input")
	same := true
	for i := range refs {
		vAssert(len(refs[i]) == len(snaps[i]), "NewIOReader: a delivered chunk changed length after delivery")
		for j := range refs[i] {
			same = vAnd(same, refs[i][j] == snaps[i][j])
		}
	}
	vAssert(same, "NewIOReader: a chunk was modified after it had been delivered")
	if rd.err == io.EOF {
		vAssert(terminal == 1, "NewIOReader: end of input did not complete the stream exactly once")
	} else {
		vAssert(terminal == 10 && vErrCode(gotErr) == 2, "NewIOReader: a read failure did not surface as the Error notification")
	}
	sub.Unsubscribe()
	vAssert(rd.closed == 1, "NewIOReader: the reader was not closed exactly once")
	vReach("end")
}

func vhC18_reader_c2() { vC18Reader(2) }
func vhC18_reader_c3() { vC18Reader(3) }

type vWriter struct {
	failAt int
	calls  int
	got    []byte
}

func (w *vWriter) Write(p []byte) (int, error) {
	i := w.calls
	w.calls++
	if i == w.failAt {
		return 0, vErrB
	}
	w.got = append(w.got, p...)
	return len(p), nil
}

func vC18Writer(n int) {
	k := vChoice("items", n+1)
	end := vChoice("end", 2)
	w := &vWriter{failAt: vChoice("failAt", n+1) - 1}
	var items [][]byte
	total := 0
	for c := 0; c < k; c++ {
		sz := vChoice("sz"+vItoa(c), 3)
		ch := make([]byte, sz)
		for j := range ch {
			ch[j] = byte(vInt64("b" + vItoa(c) + "_" + vItoa(j)))
		}
		items = append(items, ch)
	}
	src := ro.NewUnsafeObservableWithContext(func(ctx context.Context, d ro.Observer[[]byte]) ro.Teardown {
		for _, it := range items {
			d.NextWithContext(ctx, it)
		}
		if end == 0 {
			d.CompleteWithContext(ctx)
		} else {
			d.ErrorWithContext(ctx, vErrA)
		}
		return nil
	})
	var counts []int
	terminal := 0
	var gotErr error
	NewIOWriter(w)(src).SubscribeWithContext(context.Background(), ro.NewObserver(
		func(c int) { counts = append(counts, c) },
		func(err error) { terminal += 10; gotErr = err },
		func() { terminal++ },
	))
	failed := false
	for i, it := range items {
		if i == w.failAt {
			failed = true
			break
		}
		total += len(it)
	}
	vAssert(len(counts) == 1 && counts[0] == total, "NewIOWriter: the emitted count differs from the number of bytes written")
	switch {
	case failed:
		vAssert(terminal == 10 && vErrCode(gotErr) == 2, "NewIOWriter: a write failure did not surface as the Error notification")
	case end == 0:
		vAssert(terminal == 1, "NewIOWriter: completion of the source was not propagated")
	default:
		vAssert(terminal == 10 && vErrCode(gotErr) == 1, "NewIOWriter: the error of the source was not propagated")
	}
	// (whether a synchronous source keeps being written after a write failure is not part of the
	// property statement: not asserted — an earlier version of this harness did, see DESIGN.md §10)
	vAssert(len(w.got) >= total, "NewIOWriter: bytes handed to the sink were not written")
	vReach("end")
}

func vhC18_writer_n2() { vC18Writer(2) }
func vhC18_writer_n3() { vC18Writer(3) }
