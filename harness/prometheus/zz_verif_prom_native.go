//go:build verif

package roprometheus

import (
	"github.com/prometheus/client_golang/prometheus"
	dto "github.com/prometheus/client_model/go"
)

// vPromCount reads the real counter / summary through its protobuf form.
func vPromCount(x any) int64 {
	// vectors: sum over all children (one child per label combination)
	if col, ok := x.(prometheus.Collector); ok {
		if _, isMetric := x.(prometheus.Metric); !isMetric {
			ch := make(chan prometheus.Metric, 256)
			col.Collect(ch)
			close(ch)
			var total int64
			for mt := range ch {
				var m dto.Metric
				if mt.Write(&m) != nil {
					return -1
				}
				if m.Counter != nil {
					total += int64(m.GetCounter().GetValue())
				}
				if m.Summary != nil {
					total += int64(m.GetSummary().GetSampleCount())
				}
			}
			return total
		}
	}
	if c, ok := x.(prometheus.Metric); ok {
		var m dto.Metric
		if err := c.Write(&m); err != nil {
			return -1
		}
		if m.Counter != nil {
			return int64(m.GetCounter().GetValue())
		}
		if m.Summary != nil {
			return int64(m.GetSummary().GetSampleCount())
		}
	}
	return -1
}

// vPromCountL sums the children of a real vector whose label set contains name=value.
func vPromCountL(x any, name, value string) int64 {
	col, ok := x.(prometheus.Collector)
	if !ok {
		return 0
	}
	ch := make(chan prometheus.Metric, 256)
	col.Collect(ch)
	close(ch)
	var total int64
	for mt := range ch {
		var m dto.Metric
		if mt.Write(&m) != nil {
			return -1
		}
		for _, lp := range m.GetLabel() {
			if lp.GetName() == name && lp.GetValue() == value {
				if m.Counter != nil {
					total += int64(m.GetCounter().GetValue())
				}
				if m.Summary != nil {
					total += int64(m.GetSummary().GetSampleCount())
				}
			}
		}
	}
	return total
}
