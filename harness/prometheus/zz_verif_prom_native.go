//go:build verif

package roprometheus

import (
	"github.com/prometheus/client_golang/prometheus"
	dto "github.com/prometheus/client_model/go"
)

// vPromCount reads the real counter / summary through its protobuf form.
func vPromCount(x any) int64 {
	var m dto.Metric
	switch c := x.(type) {
	case *prometheus.CounterVec:
		if err := c.With(prometheus.Labels{}).Write(&m); err != nil {
			return -1
		}
		return int64(m.GetCounter().GetValue())
	case *prometheus.SummaryVec:
		mm, ok := c.With(prometheus.Labels{}).(prometheus.Metric)
		if !ok || mm.Write(&m) != nil {
			return -1
		}
		return int64(m.GetSummary().GetSampleCount())
	case prometheus.Metric:
		if err := c.Write(&m); err != nil {
			return -1
		}
		if m.Counter != nil {
			return int64(m.GetCounter().GetValue())
		}
		if m.Summary != nil {
			return int64(m.GetSummary().GetSampleCount())
		}
	}
	return -1
}
