package roprometheus

import (
	"context"

	"github.com/prometheus/client_golang/prometheus"
	"github.com/samber/ro"
)

// C19: the instrumented Pipe1/Pipe2/Pipe3 against the plain ro.PipeN over the
// same source script: identical notifications, context value and release of
// the source, licence on and off; with the licence on the counters equal what
// happened.

func vOpMap() func(ro.Observable[int64]) ro.Observable[int64] {
	return ro.Map(func(v int64) int64 { return vUFInt("f", v) })
}
func vOpFilter() func(ro.Observable[int64]) ro.Observable[int64] {
	return ro.Filter(func(v int64) bool { return vUFBool("p", v) })
}
func vOpTake(n int64) func(ro.Observable[int64]) ro.Observable[int64] { return ro.Take[int64](n) }

func vC19Pipe(L int) {
	arity := 1 + vChoice("arity", 3)
	licence := vChoice("licence", 2) == 1
	// the licence state while the pipeline is built need not be the one in force when it is
	// subscribed (a package-level pipeline is built before the licence is installed): what counts
	// is the state at subscription
	bypassLicenseCheck = vChoice("licenceAtBuild", 2) == 1
	in := vLegalScript("s", L)
	n := vInt64("n")
	vAssume(n >= 1)
	vAssume(n <= int64(L)+1)
	subsN := 1 + vChoice("subs", 2)

	// hot: the source emits after the Subscribe call has returned (a subject, a channel, a timer) —
	// a chain that terminates by itself (Take) then does so from inside a later Next, not inside
	// Subscribe
	hot := vChoice("hot", 2) == 1
	src := &vSource{cold: !hot, script: in}
	ref := &vSource{cold: !hot, script: in}
	var obs ro.Observable[int64]
	var plain ro.Observable[int64]
	var col prometheus.Collector
	// NB: introspection.GetFunctionDescription parses this very file natively and matches call
	// expressions by line: keep every PipeN call on a line of its own, with plain identifiers as arguments.
	cfg := CollectorConfig{}
	s0, r0 := src.obs(), ref.obs()
	opM, opF, opT := vOpMap(), vOpFilter(), vOpTake(n)
	switch arity {
	case 1:
		obs, col = Pipe1(cfg, s0, opM)
		plain = ro.Pipe1(r0, opM)
	case 2:
		obs, col = Pipe2(cfg, s0, opM, opF)
		plain = ro.Pipe2(r0, opM, opF)
	default:
		obs, col = Pipe3(cfg, s0, opF, opM, opT)
		plain = ro.Pipe3(r0, opF, opM, opT)
	}
	m := vInt64("marker")
	ctx := context.WithValue(context.Background(), vKeySub, m)
	totalOut := 0
	totalIn := 0
	bypassLicenseCheck = licence
	for k := 0; k < subsN; k++ {
		got := &vRecorder{name: "g" + vItoa(k)}
		want := &vRecorder{name: "w" + vItoa(k)}
		inBefore := src.subs
		obs.SubscribeWithContext(ctx, vObs(got, vFlatInt))
		plain.SubscribeWithContext(ctx, vObs(want, vFlatInt))
		hotIn := 0
		if hot {
			l0, r0 := src.live, ref.live
			for _, st := range in {
				// a hot source emits only to a subscriber it still has
				if src.live == l0 {
					if st.kind == vkNext {
						hotIn++
					}
					src.emit(st)
				}
				if ref.live == r0 {
					ref.emit(st)
				}
			}
		}
		vCheckGrammar("prometheus pipe", got)
		vSameEvents("prometheus pipe", got.evs, want.evs)
		vAssert(src.subs-inBefore == 1, "prometheus pipe: the source was not subscribed exactly once per Subscribe")
		vAssert(src.live == ref.live, "prometheus pipe: the release of the source differs from the plain pipe")
		for _, e := range got.evs {
			v, ok := e.ctx.Value(vKeySub).(int64)
			vAssert(ok, "prometheus pipe: a context value attached at subscription is lost")
			vAssert(v == m, "prometheus pipe: a context value attached at subscription is changed")
		}
		totalOut += got.nexts()
		// values the source emitted before the chain terminated (Take may cut the script short)
		if hot {
			totalIn += hotIn
		} else {
			totalIn += vSourceNexts(in, arity, n)
		}
	}
	pc := col.(*prometheusCollector)
	if licence {
		vAssert(vPromCount(pc.SubscriptionsTotal) == int64(subsN), "prometheus pipe: subscriptions counter differs from the number of Subscribe calls")
		vAssert(vPromCount(pc.NotificationsOutTotal) == int64(totalOut), "prometheus pipe: notifications-out counter differs from the values emitted by the chain")
		vAssert(vPromCount(pc.NotificationsInTotal) == int64(totalIn), "prometheus pipe: notifications-in counter differs from the values emitted by the source")
		vAssert(vPromCount(pc.NotificationLagSeconds) == int64(totalIn), "prometheus pipe: not exactly one lag observation per source value")
	} else {
		vAssert(vPromCount(pc.SubscriptionsTotal) <= 0 && vPromCount(pc.NotificationsOutTotal) <= 0, "prometheus pipe: counters moved although the licence is not active")
	}
	bypassLicenseCheck = false
	vReach("end")
}

// vSourceNexts: how many values the source got to emit: all of them, unless a
// downstream Take(n) completed first (the cold source keeps emitting into a
// closed subscriber, which drops — those still count as emitted by the source
// only while the instrumentation observer is open).
func vSourceNexts(in []vStep, arity int, n int64) int {
	return len(vVals(in))
}

func vhC19_pipe_L2() { vC19Pipe(2) }
func vhC19_pipe_L3() { vC19Pipe(3) }

// C19: the stand-alone counting operators.
var vKeyUp = vCtxKey{"upstream"}

func vC19Standalone(L int) {
	licence := vChoice("licence", 2) == 1
	bypassLicenseCheck = licence
	in := vLegalScript("s", L)
	src := &vSource{cold: true, script: in}
	cN := prometheus.NewCounter(prometheus.CounterOpts{Name: "n"})
	cE := prometheus.NewCounter(prometheus.CounterOpts{Name: "e"})
	cC := prometheus.NewCounter(prometheus.CounterOpts{Name: "c"})
	cS := prometheus.NewCounter(prometheus.CounterOpts{Name: "s"})
	// a value attached to the context UPSTREAM of the counters (not by the subscriber) must come
	// out of them on every notification kind
	upstream := ro.ContextWithValue[int64](vKeyUp, int64(5))(src.obs())
	obs := ro.Pipe4(upstream,
		IncCounterOnNext[int64](cN),
		IncCounterOnError[int64](cE),
		IncCounterOnComplete[int64](cC),
		IncCounterOnSubscription[int64](cS),
	)
	rec := &vRecorder{name: "g"}
	obs.SubscribeWithContext(context.Background(), vObs(rec, vFlatInt))
	want := &vRecorder{name: "w"}
	ref := &vSource{cold: true, script: in}
	ref.obs().SubscribeWithContext(context.Background(), vObs(want, vFlatInt))
	vSameEvents("prometheus counters", rec.evs, want.evs)
	for _, e := range rec.evs {
		v, ok := e.ctx.Value(vKeyUp).(int64)
		vAssert(ok && v == 5, "prometheus counters: a context value attached upstream of the counting operators is lost")
	}
	if licence {
		nE, nC := 0, 0
		if vEnd(in) == vkError {
			nE = 1
		}
		if vEnd(in) == vkComplete {
			nC = 1
		}
		vAssert(vPromCount(cN) == int64(len(vVals(in))), "prometheus counters: IncCounterOnNext differs from the number of Next events")
		vAssert(vPromCount(cE) == int64(nE), "prometheus counters: IncCounterOnError differs from the number of Error events")
		vAssert(vPromCount(cC) == int64(nC), "prometheus counters: IncCounterOnComplete differs from the number of Complete events")
		vAssert(vPromCount(cS) == 1, "prometheus counters: IncCounterOnSubscription differs from the number of subscriptions")
	}
	bypassLicenseCheck = false
	vReach("end")
}

func vhC19_standalone_L2() { vC19Standalone(2) }
func vhC19_standalone_L3() { vC19Standalone(3) }
