package roprometheus

import (
	"context"

	"github.com/prometheus/client_golang/prometheus"
	"github.com/samber/ro"
)

// C19: "one processing-time observation per value leaving each operator", checked per operator
// position for chains whose middle operator originates values of its own (Sum, StartWith, EndWith,
// Last, Count, DefaultIfEmpty): Pipe3(Map, X, Map).  The number of values leaving each position is
// taken from the plain nested application of the same operator values.
func vC19Origin(L int) {
	bypassLicenseCheck = true
	in := vLegalScript("s", L)
	which := vChoice("x", 6)
	a := vInt64("a")
	mkX := func() func(ro.Observable[int64]) ro.Observable[int64] {
		switch which {
		case 0:
			return ro.Sum[int64]()
		case 1:
			return ro.StartWith(a)
		case 2:
			return ro.EndWith(a)
		case 3:
			return ro.Last(func(int64) bool { return true })
		case 4:
			return ro.Count[int64]()
		}
		return ro.DefaultIfEmpty(a)
	}
	xname := [...]string{"Sum", "StartWith", "EndWith", "Last", "Count", "DefaultIfEmpty"}[which]
	o1, o2, o3 := vOpF(1), mkX(), vOpF(3)
	src := &vSource{cold: true, script: in}
	cfg := CollectorConfig{}
	s0 := src.obs()
	var obs ro.Observable[int64]
	var col prometheus.Collector
	obs, col = Pipe3(cfg, s0, o1, o2, o3)
	got := &vRecorder{name: "g"}
	obs.SubscribeWithContext(context.Background(), vObs(got, vFlatInt))
	// values leaving each position, from the plain pipeline
	count := func(k int) int64 {
		p := (&vSource{cold: true, script: in}).obs()
		ops := []func(ro.Observable[int64]) ro.Observable[int64]{vOpF(1), mkX(), vOpF(3)}
		for i := 0; i < k; i++ {
			p = ops[i](p)
		}
		r := &vRecorder{name: "c" + vItoa(k)}
		p.SubscribeWithContext(context.Background(), vObs(r, vFlatInt))
		return int64(r.nexts())
	}
	pc := col.(*prometheusCollector)
	// (position 1 last: its known shortfall — see known_findings.txt — must not hide the others)
	for _, k := range []int{1, 3, 2} {
		obsN := vPromCountL(pc.OperatorProcessingTimeSeconds, "operator_index", vItoa(k-1))
		vAssert(obsN == count(k), "prometheus pipe Map|"+xname+"|Map: processing-time observations at operator position "+vItoa(k-1)+" differ from the number of values leaving that operator")
	}
	bypassLicenseCheck = false
	vReach("end")
}

func vhC19_origin_L2() { vC19Origin(2) }
func vhC19_origin_L3() { vC19Origin(3) }
