package roprometheus

// The PipeN switch was generated once; the file is now maintained by hand.

import (
	"context"

	"github.com/prometheus/client_golang/prometheus"
	"github.com/samber/ro"
)

// C19 for every generated arity (4..24): every operator position gets its own uninterpreted
// function, so a dropped, duplicated or swapped operator in the instrumented composition changes
// the output; the reference is the nested application of the same operator values.

func vOpF(i int) func(ro.Observable[int64]) ro.Observable[int64] {
	name := "f" + vItoa(i)
	return ro.Map(func(v int64) int64 { return vUFInt(name, v) })
}

func vC19Arity(L int) {
	arity := 4 + vChoice("arity", 21)
	licence := vChoice("licence", 2) == 1
	bypassLicenseCheck = licence
	in := vLegalScript("s", L)
	src := &vSource{cold: true, script: in}
	ref := &vSource{cold: true, script: in}
	cfg := CollectorConfig{}
	s0 := src.obs()
	var o [25]func(ro.Observable[int64]) ro.Observable[int64]
	for i := 1; i <= 24; i++ {
		o[i] = vOpF(i)
	}
	// one position (or none) holds an operator that changes the number of values: an observation
	// point placed on the wrong side of an operator then counts the wrong stream
	fpos := 1 + vChoice("fpos", 25)
	if fpos <= 24 {
		o[fpos] = ro.Filter(func(v int64) bool { return vUFBool("keep", v) })
	}
	var obs ro.Observable[int64]
	var col prometheus.Collector
	// NB: one PipeN call per line, plain identifiers/index expressions as arguments (see zz_verif_c19.go)
	switch arity {
	case 4:
		obs, col = Pipe4(cfg, s0, o[1], o[2], o[3], o[4])
	case 5:
		obs, col = Pipe5(cfg, s0, o[1], o[2], o[3], o[4], o[5])
	case 6:
		obs, col = Pipe6(cfg, s0, o[1], o[2], o[3], o[4], o[5], o[6])
	case 7:
		obs, col = Pipe7(cfg, s0, o[1], o[2], o[3], o[4], o[5], o[6], o[7])
	case 8:
		obs, col = Pipe8(cfg, s0, o[1], o[2], o[3], o[4], o[5], o[6], o[7], o[8])
	case 9:
		obs, col = Pipe9(cfg, s0, o[1], o[2], o[3], o[4], o[5], o[6], o[7], o[8], o[9])
	case 10:
		obs, col = Pipe10(cfg, s0, o[1], o[2], o[3], o[4], o[5], o[6], o[7], o[8], o[9], o[10])
	case 11:
		obs, col = Pipe11(cfg, s0, o[1], o[2], o[3], o[4], o[5], o[6], o[7], o[8], o[9], o[10], o[11])
	case 12:
		obs, col = Pipe12(cfg, s0, o[1], o[2], o[3], o[4], o[5], o[6], o[7], o[8], o[9], o[10], o[11], o[12])
	case 13:
		obs, col = Pipe13(cfg, s0, o[1], o[2], o[3], o[4], o[5], o[6], o[7], o[8], o[9], o[10], o[11], o[12], o[13])
	case 14:
		obs, col = Pipe14(cfg, s0, o[1], o[2], o[3], o[4], o[5], o[6], o[7], o[8], o[9], o[10], o[11], o[12], o[13], o[14])
	case 15:
		obs, col = Pipe15(cfg, s0, o[1], o[2], o[3], o[4], o[5], o[6], o[7], o[8], o[9], o[10], o[11], o[12], o[13], o[14], o[15])
	case 16:
		obs, col = Pipe16(cfg, s0, o[1], o[2], o[3], o[4], o[5], o[6], o[7], o[8], o[9], o[10], o[11], o[12], o[13], o[14], o[15], o[16])
	case 17:
		obs, col = Pipe17(cfg, s0, o[1], o[2], o[3], o[4], o[5], o[6], o[7], o[8], o[9], o[10], o[11], o[12], o[13], o[14], o[15], o[16], o[17])
	case 18:
		obs, col = Pipe18(cfg, s0, o[1], o[2], o[3], o[4], o[5], o[6], o[7], o[8], o[9], o[10], o[11], o[12], o[13], o[14], o[15], o[16], o[17], o[18])
	case 19:
		obs, col = Pipe19(cfg, s0, o[1], o[2], o[3], o[4], o[5], o[6], o[7], o[8], o[9], o[10], o[11], o[12], o[13], o[14], o[15], o[16], o[17], o[18], o[19])
	case 20:
		obs, col = Pipe20(cfg, s0, o[1], o[2], o[3], o[4], o[5], o[6], o[7], o[8], o[9], o[10], o[11], o[12], o[13], o[14], o[15], o[16], o[17], o[18], o[19], o[20])
	case 21:
		obs, col = Pipe21(cfg, s0, o[1], o[2], o[3], o[4], o[5], o[6], o[7], o[8], o[9], o[10], o[11], o[12], o[13], o[14], o[15], o[16], o[17], o[18], o[19], o[20], o[21])
	case 22:
		obs, col = Pipe22(cfg, s0, o[1], o[2], o[3], o[4], o[5], o[6], o[7], o[8], o[9], o[10], o[11], o[12], o[13], o[14], o[15], o[16], o[17], o[18], o[19], o[20], o[21], o[22])
	case 23:
		obs, col = Pipe23(cfg, s0, o[1], o[2], o[3], o[4], o[5], o[6], o[7], o[8], o[9], o[10], o[11], o[12], o[13], o[14], o[15], o[16], o[17], o[18], o[19], o[20], o[21], o[22], o[23])
	case 24:
		obs, col = Pipe24(cfg, s0, o[1], o[2], o[3], o[4], o[5], o[6], o[7], o[8], o[9], o[10], o[11], o[12], o[13], o[14], o[15], o[16], o[17], o[18], o[19], o[20], o[21], o[22], o[23], o[24])
	}
	plain := ref.obs()
	for i := 1; i <= arity; i++ {
		plain = o[i](plain)
	}
	got := &vRecorder{name: "g"}
	want := &vRecorder{name: "w"}
	obs.SubscribeWithContext(context.Background(), vObs(got, vFlatInt))
	plain.SubscribeWithContext(context.Background(), vObs(want, vFlatInt))
	vCheckGrammar("prometheus pipe (arity)", got)
	vSameEvents("prometheus pipe arity "+vItoa(arity), got.evs, want.evs)
	vAssert(src.subs == 1 && src.live == ref.live, "prometheus pipe (arity): subscription / release of the source differs from the plain pipe")
	pc := col.(*prometheusCollector)
	n := int64(len(vVals(in)))
	if licence {
		vAssert(vPromCount(pc.SubscriptionsTotal) == 1, "prometheus pipe (arity): subscriptions counter differs from the number of Subscribe calls")
		vAssert(vPromCount(pc.NotificationsInTotal) == n, "prometheus pipe (arity): notifications-in counter differs from the values emitted by the source")
		vAssert(vPromCount(pc.NotificationsOutTotal) == int64(got.nexts()), "prometheus pipe (arity): notifications-out counter differs from the values emitted by the chain")
		if c := vPromCount(pc.OperatorProcessingTimeSeconds); c >= 0 {
			kept := int64(got.nexts()) // values leaving the filter (every later operator is one-to-one)
			total := int64(0)
			for k := 0; k < arity; k++ {
				want := n
				if k+1 >= fpos {
					want = kept
				}
				total += want
				vAssert(vPromCountL(pc.OperatorProcessingTimeSeconds, "operator_index", vItoa(k)) == want, "prometheus pipe (arity): the processing-time observations under an operator's index are not one per value leaving that operator")
			}
			vAssert(c == total, "prometheus pipe (arity): not exactly one processing-time observation per value leaving each operator")
		}
	}
	bypassLicenseCheck = false
	vReach("end")
}

func vhC19_arity_L1() { vC19Arity(1) }
func vhC19_arity_L2() { vC19Arity(2) }
