//go:build !verif

package roprometheus

// vPromCount reads a model counter/observer (engine intrinsic).
func vPromCount(x any) int64 { panic("symro intrinsic") }

// vPromCountL reads the child of a vector whose label set contains name=value (engine intrinsic).
func vPromCountL(x any, name, value string) int64 { panic("symro intrinsic") }
