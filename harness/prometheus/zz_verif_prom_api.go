//go:build !verif

package roprometheus

// vPromCount reads a model counter/observer (engine intrinsic).
func vPromCount(x any) int64 { panic("symro intrinsic") }
