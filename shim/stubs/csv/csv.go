// Package csv is the contract stub of the standard encoding/csv used to check the *plumbing* of the
// csv plugin (C18).  A Reader plays a script of records given by the harness (NewScripted): record
// after record, then io.EOF, or the given error at the given position; like the real reader it goes
// on with the next record after a failure.  A Writer records what it is given (NewRecording), fails
// at a given Write call, counts the Flush calls and remembers how many records had been written at
// each of them.  Like the real types: a record returned by Read belongs to the caller (a fresh slice
// per call) unless ReuseRecord is set, and Write does not keep the slice it is handed.
package csv

import (
	"errors"
	"io"
)

var (
	ErrFieldCount = errors.New("csv stub: wrong number of fields")
	ErrWrite      = errors.New("csv stub: write failed")
)

type Reader struct {
	Comma            rune
	Comment          rune
	FieldsPerRecord  int
	LazyQuotes       bool
	TrimLeadingSpace bool
	// ReuseRecord: Read may return a slice sharing the backing array of the previous call's slice.
	ReuseRecord bool

	records [][]string
	failAt  int // index of the Read call that fails (-1: none); the record at that index is skipped
	err     error
	pos     int
	last    []string

	// Reads counts the calls, ReadsAfterEnd those made after io.EOF had been returned.
	Reads         int
	ReadsAfterEnd int
	ended         bool
}

// NewReader keeps plugin and harness code that builds a reader from an io.Reader compiling: the
// stub does not parse, such a reader has no records.
func NewReader(r io.Reader) *Reader { return &Reader{Comma: ',', failAt: -1} }

// NewScripted: Read returns copies of records[0], records[1], ... then io.EOF; the call number
// failAt (0-based, -1 for never) returns err instead of its record.
func NewScripted(records [][]string, failAt int, err error) *Reader {
	return &Reader{Comma: ',', records: records, failAt: failAt, err: err}
}

func (r *Reader) Read() ([]string, error) {
	r.Reads++
	if r.ended {
		r.ReadsAfterEnd++
		return nil, io.EOF
	}
	i := r.pos
	if i >= len(r.records) {
		r.ended = true
		return nil, io.EOF
	}
	r.pos++
	if i == r.failAt {
		return nil, r.err
	}
	src := r.records[i]
	var out []string
	if r.ReuseRecord && cap(r.last) >= len(src) {
		out = r.last[:len(src)]
	} else {
		out = make([]string, len(src))
	}
	copy(out, src)
	r.last = out
	return out, nil
}

func (r *Reader) ReadAll() ([][]string, error) {
	var all [][]string
	for {
		rec, err := r.Read()
		if err == io.EOF {
			return all, nil
		}
		if err != nil {
			return nil, err
		}
		all = append(all, rec)
	}
}

type Writer struct {
	Comma   rune
	UseCRLF bool

	w      io.Writer
	failAt int // index of the Write call that fails (-1: none)
	err    error

	// Records: deep copies of the records accepted by Write, in order.  Calls counts the Write
	// calls (failed ones included), Flushes the Flush calls; FlushedRecords is len(Records) at the
	// latest Flush (-1 before the first).
	Records        [][]string
	Calls          int
	Flushes        int
	FlushedRecords int
	flushErr       error
}

func NewWriter(w io.Writer) *Writer {
	return &Writer{Comma: ',', w: w, failAt: -1, FlushedRecords: -1}
}

// NewRecording: the Write call number failAt (0-based, -1 for never) returns err and records
// nothing.
func NewRecording(failAt int, err error) *Writer {
	return &Writer{Comma: ',', failAt: failAt, err: err, FlushedRecords: -1}
}

// FailFlush makes every later Flush fail with err: as with the real writer only Error() tells.
func (w *Writer) FailFlush(err error) { w.flushErr = err }

func (w *Writer) Write(record []string) error {
	i := w.Calls
	w.Calls++
	if i == w.failAt {
		return w.err
	}
	w.Records = append(w.Records, append([]string{}, record...))
	return nil
}

func (w *Writer) WriteAll(records [][]string) error {
	for _, r := range records {
		if err := w.Write(r); err != nil {
			return err
		}
	}
	w.Flush()
	return w.Error()
}

func (w *Writer) Flush() {
	w.Flushes++
	w.FlushedRecords = len(w.Records)
}

// Error reports a failure of an earlier Flush.
func (w *Writer) Error() error {
	if w.Flushes > 0 {
		return w.flushErr
	}
	return nil
}
