// Package time is the contract stub of the standard time package used to check the *plumbing* of
// the time plugin (C18).  An instant is an abstract identity (ID) together with the location it is
// presented in; every function and method is an uninterpreted function of the identities and
// parameters involved, parsing fails exactly when the predicate <name>.err says so, and text results
// are rendered as "<name>(<args>)" from concrete arguments.
package time

import (
	"errors"

	"github.com/samber/ro/internal/verifrt/stubs/hook"
)

type Duration int64

const (
	Nanosecond  Duration = 1
	Microsecond          = 1000 * Nanosecond
	Millisecond          = 1000 * Microsecond
	Second               = 1000 * Millisecond
	Minute               = 60 * Second
	Hour                 = 60 * Minute
)

type Month int

type Weekday int

// Location: identity only.
type Location struct{ ID int64 }

var (
	UTC   = &Location{ID: 1}
	Local = &Location{ID: 2}
)

func FixedZone(name string, offset int) *Location { return &Location{ID: 100 + int64(offset)} }

func (l *Location) String() string { return "Location(" + itoa(l.ID) + ")" }

// Time: ID identifies the instant (as produced by the stubbed functions), Loc the presentation.
type Time struct {
	ID  int64
	Loc *Location
}

var ErrParse = errors.New("time stub: cannot parse")

func itoa(i int64) string {
	if i < 0 {
		return "-" + itoa(-i)
	}
	if i < 10 {
		return "0123456789"[i : i+1]
	}
	return itoa(i/10) + "0123456789"[i%10:i%10+1]
}

func locID(l *Location) int64 {
	if l == nil {
		return 0
	}
	return l.ID
}

func (t Time) Add(d Duration) Time {
	return Time{hook.UFInt("Time.Add", t.ID, int64(d)), t.Loc}
}
func (t Time) AddDate(years, months, days int) Time {
	return Time{hook.UFInt("Time.AddDate", t.ID, locID(t.Loc), int64(years), int64(months), int64(days)), t.Loc}
}
func (t Time) Sub(u Time) Duration { return Duration(hook.UFInt("Time.Sub", t.ID, u.ID)) }
func (t Time) In(loc *Location) Time {
	if loc == nil {
		panic("time: missing Location in call to Time.In")
	}
	return Time{t.ID, loc}
}
func (t Time) UTC() Time           { return Time{t.ID, UTC} }
func (t Time) Local() Time         { return Time{t.ID, Local} }
func (t Time) Location() *Location { return t.Loc }
func (t Time) Zone() (string, int) {
	return "Z", int(hook.UFInt("Time.Zone", t.ID, locID(t.Loc)))
}
func (t Time) Date() (int, Month, int) {
	return int(hook.UFInt("Time.Year", t.ID, locID(t.Loc))), Month(hook.UFInt("Time.Month", t.ID, locID(t.Loc))), int(hook.UFInt("Time.Day", t.ID, locID(t.Loc)))
}
func (t Time) Year() int       { y, _, _ := t.Date(); return y }
func (t Time) Month() Month    { _, m, _ := t.Date(); return m }
func (t Time) Day() int        { _, _, d := t.Date(); return d }
func (t Time) Hour() int       { return int(hook.UFInt("Time.Hour", t.ID, locID(t.Loc))) }
func (t Time) Minute() int     { return int(hook.UFInt("Time.Minute", t.ID, locID(t.Loc))) }
func (t Time) Second() int     { return int(hook.UFInt("Time.Second", t.ID, locID(t.Loc))) }
func (t Time) Nanosecond() int { return int(hook.UFInt("Time.Nanosecond", t.ID, locID(t.Loc))) }
func (t Time) Unix() int64     { return hook.UFInt("Time.Unix", t.ID) }
func (t Time) UnixNano() int64 { return hook.UFInt("Time.UnixNano", t.ID) }
func (t Time) Truncate(d Duration) Time {
	return Time{hook.UFInt("Time.Truncate", t.ID, int64(d)), t.Loc}
}
func (t Time) Round(d Duration) Time { return Time{hook.UFInt("Time.Round", t.ID, int64(d)), t.Loc} }
func (t Time) Equal(u Time) bool     { return t.ID == u.ID }
func (t Time) Before(u Time) bool    { return hook.UFBool("Time.Before", t.ID, u.ID) }
func (t Time) After(u Time) bool     { return hook.UFBool("Time.Before", u.ID, t.ID) }
func (t Time) IsZero() bool          { return t.ID == 0 && t.Loc == nil }
func (t Time) Format(layout string) string {
	return "Format(" + layout + "," + itoa(t.ID) + "," + itoa(locID(t.Loc)) + ")"
}
func (t Time) String() string { return t.Format("default") }

func Date(year int, month Month, day, hour, min, sec, nsec int, loc *Location) Time {
	if loc == nil {
		panic("time: missing Location in call to Date")
	}
	return Time{hook.UFInt("Date", int64(year), int64(month), int64(day), int64(hour), int64(min), int64(sec), int64(nsec), loc.ID), loc}
}

// Parse: the real function presents the result in UTC, in Local or in a fabricated zone depending on
// the text; the stub presents it in the location numbered by an uninterpreted function of the text.
func Parse(layout, value string) (Time, error) {
	l, v := hook.ID(layout), hook.ID(value)
	if hook.UFBool("Parse.err", l, v) {
		return Time{}, ErrParse
	}
	loc := UTC
	if hook.UFBool("Parse.local", l, v) {
		loc = Local
	}
	return Time{hook.UFInt("Parse", l, v), loc}, nil
}

func ParseInLocation(layout, value string, loc *Location) (Time, error) {
	l, v := hook.ID(layout), hook.ID(value)
	if hook.UFBool("ParseInLocation.err", l, v, locID(loc)) {
		return Time{}, ErrParse
	}
	return Time{hook.UFInt("ParseInLocation", l, v, locID(loc)), loc}, nil
}

func ParseDuration(s string) (Duration, error) {
	if hook.UFBool("ParseDuration.err", hook.ID(s)) {
		return 0, ErrParse
	}
	return Duration(hook.UFInt("ParseDuration", hook.ID(s))), nil
}

func Now() Time                     { return Time{hook.UFInt("Now"), Local} }
func Since(t Time) Duration         { return Now().Sub(t) }
func Unix(sec, nsec int64) Time     { return Time{hook.UFInt("Unix", sec, nsec), Local} }
func (d Duration) String() string   { return "Duration(" + itoa(int64(d)) + ")" }
func (d Duration) Seconds() float64 { return float64(d) / 1e9 }

const (
	RFC3339  = "RFC3339"
	RFC1123  = "RFC1123"
	Kitchen  = "Kitchen"
	DateOnly = "DateOnly"
	DateTime = "DateTime"
)
