// Package template is the contract stub of text/template and html/template used to check the
// template plugin (C18): Execute writes "<", the item's id, ">" in three separate writes with a
// scheduling point in the middle (a real template calls back into the data value while
// rendering), and fails when the uninterpreted predicate Execute.err says so.
package template

import (
	"errors"
	"io"

	"github.com/samber/ro/internal/verifrt/stubs/hook"
)

var ErrExec = errors.New("template stub: execution failed")

type Template struct {
	name string
	text string
}

func New(name string) *Template { return &Template{name: name} }

func (t *Template) Parse(text string) (*Template, error) {
	t.text = text
	return t, nil
}

func Must(t *Template, err error) *Template {
	if err != nil {
		panic(err)
	}
	return t
}

func itoa(i int64) string {
	if i < 0 {
		return "-" + itoa(-i)
	}
	if i < 10 {
		return "0123456789"[i : i+1]
	}
	return itoa(i/10) + "0123456789"[i%10:i%10+1]
}

func idOf(data any) int64 {
	switch v := data.(type) {
	case int64:
		return v
	case int:
		return int64(v)
	case string:
		return hook.ID(v)
	}
	return -1
}

func (t *Template) Execute(w io.Writer, data any) error {
	id := idOf(data)
	if _, err := w.Write([]byte("<")); err != nil {
		return err
	}
	if hook.Yield != nil {
		hook.Yield() // the data value's methods run here in a real template
	}
	if hook.UFBool("Execute.err", id) {
		return ErrExec
	}
	if _, err := w.Write([]byte(itoa(id))); err != nil {
		return err
	}
	_, err := w.Write([]byte(">"))
	return err
}
