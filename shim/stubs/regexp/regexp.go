// Package regexp is the contract stub of the standard regexp package used to check the *plumbing* of
// the regexp plugin (C18).  A compiled expression is an abstract identity (ID); every method is an
// uninterpreted function of (expression id, text id, parameters).  Boolean results come from
// hook.UFBool; text results are rendered as "<name>(<args>)" from concrete arguments, so that the
// expression, the text, the count n and the replacement each show in the result; a slice result is nil
// when the predicate <name>.none holds and has two elements "#0", "#1" otherwise.  As in the real
// library the []byte flavour of a method is the string flavour on the same text (Match(b) ==
// MatchString(string(b)), Find(b) == []byte(FindString(string(b))) ...), and no method writes to its
// arguments or returns a slice that aliases them.
package regexp

import (
	"errors"

	"github.com/samber/ro/internal/verifrt/stubs/hook"
)

// Regexp: identity only.
type Regexp struct{ ID int64 }

var ErrCompile = errors.New("regexp stub: cannot compile the expression")

func itoa(i int64) string {
	if i < 0 {
		return "-" + itoa(-i)
	}
	if i < 10 {
		return "0123456789"[i : i+1]
	}
	return itoa(i/10) + "0123456789"[i%10:i%10+1]
}

// Compile: the identity of the expression is the id of its text (offset so that it cannot be mistaken
// for a text id); fails when the predicate Compile.err holds.
func Compile(expr string) (*Regexp, error) {
	if hook.UFBool("Compile.err", hook.ID(expr)) {
		return nil, ErrCompile
	}
	return &Regexp{ID: 1000 + hook.ID(expr)}, nil
}

func MustCompile(expr string) *Regexp {
	re, err := Compile(expr)
	if err != nil {
		panic("regexp: Compile(" + expr + "): " + err.Error())
	}
	return re
}

func (re *Regexp) String() string { return "Regexp(" + itoa(re.ID) + ")" }

func (re *Regexp) args(s string) string { return itoa(re.ID) + "," + s }

func toBytes(s []string) [][]byte {
	if s == nil {
		return nil
	}
	out := make([][]byte, len(s))
	for i := range s {
		out[i] = []byte(s[i])
	}
	return out
}

// Match family.
func (re *Regexp) MatchString(s string) bool { return hook.UFBool("Regexp.Match", re.ID, hook.ID(s)) }
func (re *Regexp) Match(b []byte) bool       { return re.MatchString(string(b)) }

// Find family: no match = "" / nil.
func (re *Regexp) FindString(s string) string {
	if hook.UFBool("Regexp.Find.none", re.ID, hook.ID(s)) {
		return ""
	}
	return "Find(" + re.args(s) + ")"
}

func (re *Regexp) Find(b []byte) []byte {
	if hook.UFBool("Regexp.Find.none", re.ID, hook.BytesID(b)) {
		return nil
	}
	return []byte(re.FindString(string(b)))
}

func (re *Regexp) FindStringSubmatch(s string) []string {
	if hook.UFBool("Regexp.FindSubmatch.none", re.ID, hook.ID(s)) {
		return nil
	}
	p := "FindSubmatch(" + re.args(s) + ")"
	return []string{p + "#0", p + "#1"}
}

func (re *Regexp) FindSubmatch(b []byte) [][]byte {
	return toBytes(re.FindStringSubmatch(string(b)))
}

func (re *Regexp) FindAllString(s string, n int) []string {
	if hook.UFBool("Regexp.FindAll.none", re.ID, hook.ID(s), int64(n)) {
		return nil
	}
	p := "FindAll(" + re.args(s) + "," + itoa(int64(n)) + ")"
	return []string{p + "#0", p + "#1"}
}

func (re *Regexp) FindAll(b []byte, n int) [][]byte {
	return toBytes(re.FindAllString(string(b), n))
}

func (re *Regexp) FindAllStringSubmatch(s string, n int) [][]string {
	if hook.UFBool("Regexp.FindAllSubmatch.none", re.ID, hook.ID(s), int64(n)) {
		return nil
	}
	p := "FindAllSubmatch(" + re.args(s) + "," + itoa(int64(n)) + ")"
	return [][]string{{p + "#0.0", p + "#0.1"}, {p + "#1.0", p + "#1.1"}}
}

func (re *Regexp) FindAllSubmatch(b []byte, n int) [][][]byte {
	s := re.FindAllStringSubmatch(string(b), n)
	if s == nil {
		return nil
	}
	out := make([][][]byte, len(s))
	for i := range s {
		out[i] = toBytes(s[i])
	}
	return out
}

// Replace family: always a fresh value.
func (re *Regexp) ReplaceAllString(src, repl string) string {
	return "ReplaceAll(" + re.args(src) + "," + repl + ")"
}

func (re *Regexp) ReplaceAll(src, repl []byte) []byte {
	return []byte(re.ReplaceAllString(string(src), string(repl)))
}

func (re *Regexp) ReplaceAllLiteralString(src, repl string) string {
	return "ReplaceAllLiteral(" + re.args(src) + "," + repl + ")"
}

func (re *Regexp) ReplaceAllLiteral(src, repl []byte) []byte {
	return []byte(re.ReplaceAllLiteralString(string(src), string(repl)))
}
