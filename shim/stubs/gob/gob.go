// Package gob is the contract stub of the standard encoding/gob used to check the *plumbing* of the
// gob plugin (C18).  A value is known to the stub only through its identity: Encode writes
// "Encode(<id>)" to the encoder's writer (in two writes, as the real encoder sends a type description
// before the first value) and fails exactly when the predicate Encode.err holds for the identity;
// Decode reads everything its reader has, gives its target the identity UFInt("Decode", id of the
// bytes) and fails exactly when the predicate Decode.err holds for those bytes.  No reflection: the
// shapes the stub can fill are Setter (a pointer to a value type with a VerifSet method, e.g. *Item)
// and **Item (pointer element type: like the real package the stub allocates when the pointer is nil
// and REUSES the pointee when it is not).
package gob

import (
	"errors"
	"io"

	"github.com/samber/ro/internal/verifrt/stubs/hook"
)

var (
	ErrEncode = errors.New("gob stub: cannot encode")
	ErrDecode = errors.New("gob stub: cannot decode")
	// ErrShape: the stub was handed something it cannot identify (a harness mistake, never a model of
	// the real package).
	ErrShape = errors.New("gob stub: unknown shape")
)

// IDer is implemented by values the stub can encode.
type IDer interface{ VerifID() int64 }

// Setter is implemented by targets the stub can fill.
type Setter interface{ VerifSet(id int64) }

// Item is a ready-made element type for harnesses: an identity, plus how many times this very
// target was filled by a decoder (a fresh target per item has Sets == 1).
type Item struct {
	ID   int64
	Sets int
}

func (i Item) VerifID() int64 { return i.ID }
func (i *Item) VerifSet(id int64) {
	i.ID = id
	i.Sets++
}

func itoa(i int64) string {
	if i < 0 {
		return "-" + itoa(-i)
	}
	if i < 10 {
		return "0123456789"[i : i+1]
	}
	return itoa(i/10) + "0123456789"[i%10:i%10+1]
}

// Text is what an encoder writes for the value with that identity.
func Text(id int64) string { return "Encode(" + itoa(id) + ")" }

func idOf(v any) (int64, bool) {
	switch x := v.(type) {
	case *Item:
		if x == nil {
			return 0, false // the real package refuses a nil pointer
		}
		return x.ID, true
	case IDer:
		return x.VerifID(), true
	}
	return 0, false
}

type Encoder struct {
	w io.Writer
	// Encodes counts the values sent through this encoder.
	Encodes int
}

func NewEncoder(w io.Writer) *Encoder { return &Encoder{w: w} }

func (e *Encoder) Encode(v any) error {
	id, ok := idOf(v)
	if !ok {
		return ErrShape
	}
	if hook.UFBool("Encode.err", id) {
		return ErrEncode
	}
	e.Encodes++
	if _, err := e.w.Write([]byte("Encode(")); err != nil {
		return err
	}
	_, err := e.w.Write([]byte(itoa(id) + ")"))
	return err
}

type Decoder struct{ r io.Reader }

func NewDecoder(r io.Reader) *Decoder { return &Decoder{r: r} }

// readAll: everything the reader has (small chunks, so that a reader handing out its content
// piecewise is put together again).
func readAll(r io.Reader) ([]byte, error) {
	var data []byte
	buf := make([]byte, 8)
	for {
		n, err := r.Read(buf)
		data = append(data, buf[:n]...)
		if err == io.EOF {
			return data, nil
		}
		if err != nil {
			return data, err
		}
		if n == 0 {
			return data, io.ErrNoProgress
		}
	}
}

func (d *Decoder) Decode(v any) error {
	data, err := readAll(d.r)
	if err != nil {
		return err
	}
	k := hook.BytesID(data)
	if hook.UFBool("Decode.err", k) {
		return ErrDecode
	}
	id := hook.UFInt("Decode", k)
	switch t := v.(type) {
	case **Item:
		if t == nil {
			return ErrShape
		}
		if *t == nil {
			*t = new(Item)
		}
		(*t).VerifSet(id)
	case Setter:
		t.VerifSet(id)
	default:
		return ErrShape
	}
	return nil
}
