// Package json is the contract stub of the standard encoding/json used to check the *plumbing* of
// the json plugin (C18).  A value is known to the stub only through its identity: Marshal renders
// "Marshal(<id>)" for a value that tells its id (interface IDer), Unmarshal gives its target the id
// UFInt("Unmarshal", id of the text) and fails exactly when the predicate Unmarshal.err holds for
// that text.  No reflection: the shapes the stub can fill are Setter (a pointer to a value type with
// a VerifSet method, e.g. *Item) and **Item (pointer element type: like the real package the stub
// allocates when the pointer is nil and REUSES the pointee when it is not).
package json

import (
	"errors"

	"github.com/samber/ro/internal/verifrt/stubs/hook"
)

var (
	ErrMarshal   = errors.New("json stub: cannot marshal")
	ErrUnmarshal = errors.New("json stub: cannot unmarshal")
	// ErrShape: the stub was handed something it cannot identify (a harness mistake, never a model of
	// the real package).
	ErrShape = errors.New("json stub: unknown shape")
)

// IDer is implemented by values the stub can encode.
type IDer interface{ VerifID() int64 }

// Setter is implemented by targets the stub can fill.
type Setter interface{ VerifSet(id int64) }

// Item is a ready-made element type for harnesses: an identity, plus what the decoder found in the
// target it was handed (Sets counts how many times this very target was filled: a fresh target per
// item has Sets == 1).
type Item struct {
	ID   int64
	Sets int
}

func (i Item) VerifID() int64 { return i.ID }
func (i *Item) VerifSet(id int64) {
	i.ID = id
	i.Sets++
}

func itoa(i int64) string {
	if i < 0 {
		return "-" + itoa(-i)
	}
	if i < 10 {
		return "0123456789"[i : i+1]
	}
	return itoa(i/10) + "0123456789"[i%10:i%10+1]
}

// Text is the text Marshal renders for the value with that identity.
func Text(id int64) string { return "Marshal(" + itoa(id) + ")" }

func idOf(v any) (int64, bool) {
	switch x := v.(type) {
	case *Item:
		if x == nil {
			return -2, true // the real package renders null
		}
		return x.ID, true
	case IDer:
		return x.VerifID(), true
	}
	return 0, false
}

func Marshal(v any) ([]byte, error) {
	id, ok := idOf(v)
	if !ok {
		return nil, ErrShape
	}
	if hook.UFBool("Marshal.err", id) {
		return nil, ErrMarshal
	}
	return []byte(Text(id)), nil
}

func Unmarshal(data []byte, v any) error {
	d := hook.BytesID(data)
	if hook.UFBool("Unmarshal.err", d) {
		return ErrUnmarshal
	}
	id := hook.UFInt("Unmarshal", d)
	switch t := v.(type) {
	case **Item:
		if t == nil {
			return ErrShape
		}
		if *t == nil {
			*t = new(Item)
		}
		(*t).VerifSet(id)
	case Setter:
		t.VerifSet(id)
	default:
		return ErrShape
	}
	return nil
}
