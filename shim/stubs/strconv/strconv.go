// Package strconv is the contract stub of the standard strconv used to check the *plumbing* of the
// strconv plugin (C18): every function is an uninterpreted function of (text id, parameters) and
// fails exactly when the uninterpreted predicate <name>.err says so.  Results that are text are
// rendered as "<name>(<args>)" with concrete arguments only.
package strconv

import (
	"errors"

	"github.com/samber/ro/internal/verifrt/stubs/hook"
)

var ErrSyntax = errors.New("strconv stub: invalid syntax")

func itoa(i int64) string {
	if i < 0 {
		return "-" + itoa(-i)
	}
	if i < 10 {
		return "0123456789"[i : i+1]
	}
	return itoa(i/10) + "0123456789"[i%10:i%10+1]
}

func Atoi(s string) (int, error) {
	if hook.UFBool("Atoi.err", hook.ID(s)) {
		return 0, ErrSyntax
	}
	return int(hook.UFInt("Atoi", hook.ID(s))), nil
}

func ParseInt(s string, base int, bitSize int) (int64, error) {
	if hook.UFBool("ParseInt.err", hook.ID(s), int64(base), int64(bitSize)) {
		return 0, ErrSyntax
	}
	return hook.UFInt("ParseInt", hook.ID(s), int64(base), int64(bitSize)), nil
}

func ParseUint(s string, base int, bitSize int) (uint64, error) {
	if hook.UFBool("ParseUint.err", hook.ID(s), int64(base), int64(bitSize)) {
		return 0, ErrSyntax
	}
	return uint64(hook.UFInt("ParseUint", hook.ID(s), int64(base), int64(bitSize))), nil
}

func ParseBool(s string) (bool, error) {
	if hook.UFBool("ParseBool.err", hook.ID(s)) {
		return false, ErrSyntax
	}
	return hook.UFBool("ParseBool", hook.ID(s)), nil
}

func ParseFloat(s string, bitSize int) (float64, error) {
	if hook.UFBool("ParseFloat.err", hook.ID(s), int64(bitSize)) {
		return 0, ErrSyntax
	}
	return 1.5, nil
}

// text results: concrete arguments only (the harness keeps them concrete)
func FormatBool(b bool) string {
	if b {
		return "FormatBool(true)"
	}
	return "FormatBool(false)"
}
func FormatInt(i int64, base int) string {
	return "FormatInt(" + itoa(i) + "," + itoa(int64(base)) + ")"
}
func FormatUint(i uint64, base int) string {
	return "FormatUint(" + itoa(int64(i)) + "," + itoa(int64(base)) + ")"
}
func Itoa(i int) string       { return "Itoa(" + itoa(int64(i)) + ")" }
func Quote(s string) string   { return "Quote(" + s + ")" }
func QuoteRune(r rune) string { return "QuoteRune(" + itoa(int64(r)) + ")" }
func FormatFloat(f float64, fmt byte, prec, bitSize int) string {
	return "FormatFloat(" + itoa(int64(fmt)) + "," + itoa(int64(prec)) + "," + itoa(int64(bitSize)) + ")"
}
func FormatComplex(c complex128, fmt byte, prec, bitSize int) string {
	return "FormatComplex(" + itoa(int64(fmt)) + "," + itoa(int64(prec)) + "," + itoa(int64(bitSize)) + ")"
}
func Unquote(s string) (string, error) {
	if hook.UFBool("Unquote.err", hook.ID(s)) {
		return "", ErrSyntax
	}
	return "Unquote(" + s + ")", nil
}
