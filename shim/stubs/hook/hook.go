// Package hook connects the library stubs under internal/verifrt/stubs to the harness API of the
// package under test: the harness assigns its own vUFInt / vUFBool / vYield to these variables, so
// a stubbed library function is an uninterpreted function of its arguments (symbolically in the
// engine, from the solver's model in native replays).
package hook

var (
	UFInt  func(name string, args ...int64) int64
	UFBool func(name string, args ...int64) bool
	Yield  func()
	// ID maps a piece of text the harness knows to a small integer (its index), -1 otherwise.
	ID func(s string) int64
)

func BytesID(b []byte) int64 { return ID(string(b)) }
