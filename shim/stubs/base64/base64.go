// Package base64 is the contract stub of the standard encoding/base64 used to check the *plumbing* of
// the base64 plugin (C18).  An encoding is an abstract identity (ID); the four standard encodings are
// four distinct identities.  EncodeToString renders "Enc(<encoding>,<bytes>)" from its concrete
// arguments, so that the encoding and the data both show in the result.  DecodeString obeys the one law
// of the real library that the plugin's contract relies on - decoding, with the SAME encoding, a text
// that this encoding produced gives the original bytes back and cannot fail - and is uninterpreted
// otherwise: it fails exactly when the predicate DecodeString.err(encoding, text id) holds and returns
// "Dec(<encoding>,<text>)" when it does not.  Nothing writes to or aliases an argument.
package base64

import (
	"errors"

	"github.com/samber/ro/internal/verifrt/stubs/hook"
)

// Encoding: identity only.
type Encoding struct{ ID int64 }

const (
	StdPadding rune = '='
	NoPadding  rune = -1
)

var (
	StdEncoding    = &Encoding{ID: 1}
	URLEncoding    = &Encoding{ID: 2}
	RawStdEncoding = &Encoding{ID: 3}
	RawURLEncoding = &Encoding{ID: 4}
)

// NewEncoding: the identity is derived from the alphabet's text id (never one of the standard four).
func NewEncoding(encoder string) *Encoding { return &Encoding{ID: 100 + hook.ID(encoder)} }

// CorruptInputError exists for source compatibility; the stub reports ErrCorrupt.
type CorruptInputError int64

func (e CorruptInputError) Error() string {
	return "illegal base64 data at input byte " + itoa(int64(e))
}

var ErrCorrupt = errors.New("base64 stub: illegal base64 data")

func itoa(i int64) string {
	if i < 0 {
		return "-" + itoa(-i)
	}
	if i < 10 {
		return "0123456789"[i : i+1]
	}
	return itoa(i/10) + "0123456789"[i%10:i%10+1]
}

func (enc *Encoding) prefix() string { return "Enc(" + itoa(enc.ID) + "," }

func (enc *Encoding) EncodeToString(src []byte) string {
	return enc.prefix() + string(src) + ")"
}

func (enc *Encoding) DecodeString(s string) ([]byte, error) {
	p := enc.prefix()
	if len(s) > len(p) && s[:len(p)] == p && s[len(s)-1] == ')' {
		return []byte(s[len(p) : len(s)-1]), nil
	}
	if hook.UFBool("DecodeString.err", enc.ID, hook.ID(s)) {
		return nil, ErrCorrupt
	}
	return []byte("Dec(" + itoa(enc.ID) + "," + s + ")"), nil
}

func (enc *Encoding) EncodedLen(n int) int {
	return int(hook.UFInt("Encoding.EncodedLen", enc.ID, int64(n)))
}
func (enc *Encoding) DecodedLen(n int) int {
	return int(hook.UFInt("Encoding.DecodedLen", enc.ID, int64(n)))
}
