// Package sync (import path github.com/samber/ro/internal/verifrt/vsync) stands in for package
// sync in native replays that need library-level preemptions: every operation that is a
// scheduling point of the symbolic engine calls ctl.LPoint first, and an operation that would
// block hands the baton over through ctl.Blocked instead of parking in the run time.
package sync

import (
	stdsync "sync"
	stdatomic "sync/atomic"

	"github.com/samber/ro/internal/verifrt/ctl"
	atomic "github.com/samber/ro/internal/verifrt/vatomic"
)

type (
	Locker = stdsync.Locker
	Pool   = stdsync.Pool
	Cond   = stdsync.Cond
)

func NewCond(l Locker) *Cond { return stdsync.NewCond(l) }

type Mutex struct{ mu stdsync.Mutex }

func (m *Mutex) Lock() {
	ctl.LPoint()
	for !m.mu.TryLock() {
		ctl.Blocked()
	}
}
func (m *Mutex) TryLock() bool { ctl.LPoint(); return m.mu.TryLock() }
func (m *Mutex) Unlock()       { m.mu.Unlock() }

type RWMutex struct{ mu stdsync.RWMutex }

func (m *RWMutex) Lock() {
	ctl.LPoint()
	for !m.mu.TryLock() {
		ctl.Blocked()
	}
}
func (m *RWMutex) TryLock() bool { ctl.LPoint(); return m.mu.TryLock() }
func (m *RWMutex) Unlock()       { m.mu.Unlock() }
func (m *RWMutex) RLock() {
	ctl.LPoint()
	for !m.mu.TryRLock() {
		ctl.Blocked()
	}
}
func (m *RWMutex) TryRLock() bool  { ctl.LPoint(); return m.mu.TryRLock() }
func (m *RWMutex) RUnlock()        { m.mu.RUnlock() }
func (m *RWMutex) RLocker() Locker { return m.mu.RLocker() }

// Once mirrors the standard implementation on top of the shimmed primitives so that it passes
// through the same scheduling points as the engine's interpretation of the real source.
type Once struct {
	done atomic.Uint32
	m    Mutex
}

func (o *Once) Do(f func()) {
	if o.done.Load() == 0 {
		o.doSlow(f)
	}
}

func (o *Once) doSlow(f func()) {
	o.m.Lock()
	defer o.m.Unlock()
	if o.done.Load() == 0 {
		defer o.done.Store(1)
		f()
	}
}

type WaitGroup struct{ n stdatomic.Int64 }

func (w *WaitGroup) Add(d int) {
	ctl.LPoint()
	if w.n.Add(int64(d)) < 0 {
		panic("sync: negative WaitGroup counter")
	}
}
func (w *WaitGroup) Done() {
	ctl.LPoint()
	if w.n.Add(-1) < 0 {
		panic("sync: negative WaitGroup counter")
	}
}
func (w *WaitGroup) Wait() {
	ctl.LPoint()
	for w.n.Load() != 0 {
		ctl.Blocked()
	}
}

type Map struct{ m stdsync.Map }

func (m *Map) Load(k any) (any, bool)           { ctl.LPoint(); return m.m.Load(k) }
func (m *Map) Store(k, v any)                   { ctl.LPoint(); m.m.Store(k, v) }
func (m *Map) LoadOrStore(k, v any) (any, bool) { ctl.LPoint(); return m.m.LoadOrStore(k, v) }
func (m *Map) LoadAndDelete(k any) (any, bool)  { ctl.LPoint(); return m.m.LoadAndDelete(k) }
func (m *Map) Delete(k any)                     { ctl.LPoint(); m.m.Delete(k) }
func (m *Map) Swap(k, v any) (any, bool)        { ctl.LPoint(); return m.m.Swap(k, v) }
func (m *Map) CompareAndSwap(k, o, n any) bool  { ctl.LPoint(); return m.m.CompareAndSwap(k, o, n) }
func (m *Map) CompareAndDelete(k, o any) bool   { ctl.LPoint(); return m.m.CompareAndDelete(k, o) }
func (m *Map) Range(f func(k, v any) bool)      { ctl.LPoint(); m.m.Range(f) }
