// Package time (import path github.com/samber/ro/internal/verifrt/vtime) is a
// virtual-time stand-in for the parts of package time that samber/ro uses.  It is
// injected by `go test -overlay` ONLY for native replays of time-dependent
// counterexamples: the library's source files are compiled from copies whose
// import of "time" is redirected here.  The clock moves only when the replaying
// harness calls Advance (or, when everything is blocked, by the idle advancer),
// so no replay ever sleeps for real or depends on machine load.
package time

import (
	"sync"
	stdtime "time"

	"github.com/samber/ro/internal/verifrt/ctl"
)

type (
	Duration = stdtime.Duration
	Time     = stdtime.Time
	Month    = stdtime.Month
	Weekday  = stdtime.Weekday
	Location = stdtime.Location
)

const (
	Nanosecond  = stdtime.Nanosecond
	Microsecond = stdtime.Microsecond
	Millisecond = stdtime.Millisecond
	Second      = stdtime.Second
	Minute      = stdtime.Minute
	Hour        = stdtime.Hour
	RFC3339     = stdtime.RFC3339
	RFC3339Nano = stdtime.RFC3339Nano
)

var UTC = stdtime.UTC

func Unix(sec, nsec int64) Time { return stdtime.Unix(sec, nsec) }
func Date(y int, m Month, d, h, mi, s, ns int, l *Location) Time {
	return stdtime.Date(y, m, d, h, mi, s, ns, l)
}
func ParseDuration(s string) (Duration, error) { return stdtime.ParseDuration(s) }
func Parse(layout, value string) (Time, error) { return stdtime.Parse(layout, value) }

type vtimer struct {
	deadline int64
	period   int64
	active   bool
	fn       func()
	ch       chan Time
	seq      int
}

var (
	mu       sync.Mutex
	now      int64
	timers   []*vtimer
	seq      int
	base     = stdtime.Unix(1_000_000_000, 0)
	lastAct  = stdtime.Now()
	settleNS = 3 * stdtime.Millisecond
)

// Reset clears the virtual clock (called at the start of every replayed case).
func ResetClock() {
	mu.Lock()
	now = 0
	timers = nil
	seq = 0
	lastAct = stdtime.Now()
	mu.Unlock()
}

func Now() Time {
	mu.Lock()
	defer mu.Unlock()
	return base.Add(Duration(now))
}

func NowNS() int64 {
	mu.Lock()
	defer mu.Unlock()
	return now
}

func Since(t Time) Duration { return Now().Sub(t) }
func Until(t Time) Duration { return t.Sub(Now()) }

func add(d Duration, period Duration, fn func(), ch chan Time) *vtimer {
	mu.Lock()
	defer mu.Unlock()
	seq++
	t := &vtimer{deadline: now + int64(d), period: int64(period), active: true, fn: fn, ch: ch, seq: seq}
	timers = append(timers, t)
	lastAct = stdtime.Now()
	return t
}

type Timer struct {
	C <-chan Time
	t *vtimer
}

type Ticker struct {
	C <-chan Time
	t *vtimer
}

func NewTimer(d Duration) *Timer {
	ch := make(chan Time, 1)
	return &Timer{C: ch, t: add(d, 0, nil, ch)}
}

func AfterFunc(d Duration, f func()) *Timer {
	return &Timer{t: add(d, 0, f, nil)}
}

func After(d Duration) <-chan Time { return NewTimer(d).C }

func NewTicker(d Duration) *Ticker {
	if d <= 0 {
		panic("non-positive interval for NewTicker")
	}
	ch := make(chan Time, 1)
	return &Ticker{C: ch, t: add(d, d, nil, ch)}
}

func Tick(d Duration) <-chan Time { return NewTicker(d).C }

func (t *Timer) Stop() bool {
	mu.Lock()
	defer mu.Unlock()
	was := t.t.active
	t.t.active = false
	lastAct = stdtime.Now()
	return was
}

func (t *Timer) Reset(d Duration) bool {
	mu.Lock()
	defer mu.Unlock()
	was := t.t.active
	t.t.active = true
	t.t.deadline = now + int64(d)
	if t.t.ch != nil {
		select {
		case <-t.t.ch:
		default:
		}
	}
	lastAct = stdtime.Now()
	return was
}

func (t *Ticker) Stop() {
	mu.Lock()
	t.t.active = false
	lastAct = stdtime.Now()
	mu.Unlock()
}

func (t *Ticker) Reset(d Duration) {
	mu.Lock()
	t.t.active = true
	t.t.period = int64(d)
	t.t.deadline = now + int64(d)
	lastAct = stdtime.Now()
	mu.Unlock()
}

func Sleep(d Duration) {
	if d <= 0 {
		return
	}
	<-NewTimer(d).C
}

// earliest returns the active timer with the least deadline (ties: creation order).
func earliest() *vtimer {
	var best *vtimer
	for _, t := range timers {
		if !t.active {
			continue
		}
		if best == nil || t.deadline < best.deadline || (t.deadline == best.deadline && t.seq < best.seq) {
			best = t
		}
	}
	return best
}

// fireOne arms the consequences of one timer (called with mu held, returns with mu held).
func fireOne(t *vtimer) {
	if t.period > 0 {
		t.deadline += t.period
	} else {
		t.active = false
	}
	fn, ch := t.fn, t.ch
	at := base.Add(Duration(now))
	mu.Unlock()
	if fn != nil {
		if ctl.LibMode() {
			ctl.GoTimer(fn) // library goroutines are scheduled by the replay controller
		} else {
			go fn()
		}
	} else if ch != nil {
		select {
		case ch <- at:
		default:
		}
	}
	mu.Lock()
}

// fire fires t and every other timer armed for the very same instant (their goroutines may then
// run in any order), then lets the woken goroutines run — exactly the engine's step.
func fire(t *vtimer) {
	dl := t.deadline
	fireOne(t)
	for _, o := range append([]*vtimer{}, timers...) {
		if o != t && o.active && o.deadline == dl {
			fireOne(o)
		}
	}
	mu.Unlock()
	if ctl.LibMode() {
		ctl.HPoint("quiesce") // the engine runs everything to quiescence after each firing
	}
	stdtime.Sleep(settleNS) // let the woken goroutines run
	mu.Lock()
}

// Advance moves the virtual clock forward by d, firing due timers in deadline order.
func Advance(d int64) {
	mu.Lock()
	target := now + d
	for {
		t := earliest()
		if t == nil || t.deadline > target {
			break
		}
		if t.deadline > now {
			now = t.deadline
		}
		fire(t)
	}
	if target > now {
		now = target
	}
	lastAct = stdtime.Now()
	mu.Unlock()
}

// Pending reports the number of armed timers.
func Pending() int {
	mu.Lock()
	defer mu.Unlock()
	n := 0
	for _, t := range timers {
		if t.active {
			n++
		}
	}
	return n
}

// Touch records that the replay is making progress (the harness is at one of its own points): the
// idle rule below only applies while the harness goroutine is stuck inside the library.
func Touch() {
	mu.Lock()
	lastAct = stdtime.Now()
	mu.Unlock()
}

// IdleAdvance fires the earliest pending timer if nothing has touched the clock
// for a while: it plays the engine's rule "time passes when no thread can run"
// for harnesses whose main goroutine is blocked inside the library.
func IdleAdvance(idle stdtime.Duration) bool {
	mu.Lock()
	defer mu.Unlock()
	if stdtime.Since(lastAct) < idle {
		return false
	}
	t := earliest()
	if t == nil {
		return false
	}
	if t.deadline > now {
		now = t.deadline
	}
	fire(t)
	lastAct = stdtime.Now()
	return true
}
