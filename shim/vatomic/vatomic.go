// Package atomic (import path github.com/samber/ro/internal/verifrt/vatomic) stands in for
// sync/atomic in native replays: every operation is a scheduling point (ctl.LPoint) followed by
// the real atomic operation.
package atomic

import (
	stdatomic "sync/atomic"
	"unsafe"

	"github.com/samber/ro/internal/verifrt/ctl"
)

func LoadInt32(p *int32) int32                     { ctl.LPoint(); return stdatomic.LoadInt32(p) }
func LoadInt64(p *int64) int64                     { ctl.LPoint(); return stdatomic.LoadInt64(p) }
func LoadUint32(p *uint32) uint32                  { ctl.LPoint(); return stdatomic.LoadUint32(p) }
func LoadUint64(p *uint64) uint64                  { ctl.LPoint(); return stdatomic.LoadUint64(p) }
func LoadUintptr(p *uintptr) uintptr               { ctl.LPoint(); return stdatomic.LoadUintptr(p) }
func LoadPointer(p *unsafe.Pointer) unsafe.Pointer { ctl.LPoint(); return stdatomic.LoadPointer(p) }

func StoreInt32(p *int32, v int32)                     { ctl.LPoint(); stdatomic.StoreInt32(p, v) }
func StoreInt64(p *int64, v int64)                     { ctl.LPoint(); stdatomic.StoreInt64(p, v) }
func StoreUint32(p *uint32, v uint32)                  { ctl.LPoint(); stdatomic.StoreUint32(p, v) }
func StoreUint64(p *uint64, v uint64)                  { ctl.LPoint(); stdatomic.StoreUint64(p, v) }
func StoreUintptr(p *uintptr, v uintptr)               { ctl.LPoint(); stdatomic.StoreUintptr(p, v) }
func StorePointer(p *unsafe.Pointer, v unsafe.Pointer) { ctl.LPoint(); stdatomic.StorePointer(p, v) }

func AddInt32(p *int32, d int32) int32         { ctl.LPoint(); return stdatomic.AddInt32(p, d) }
func AddInt64(p *int64, d int64) int64         { ctl.LPoint(); return stdatomic.AddInt64(p, d) }
func AddUint32(p *uint32, d uint32) uint32     { ctl.LPoint(); return stdatomic.AddUint32(p, d) }
func AddUint64(p *uint64, d uint64) uint64     { ctl.LPoint(); return stdatomic.AddUint64(p, d) }
func AddUintptr(p *uintptr, d uintptr) uintptr { ctl.LPoint(); return stdatomic.AddUintptr(p, d) }

func SwapInt32(p *int32, v int32) int32     { ctl.LPoint(); return stdatomic.SwapInt32(p, v) }
func SwapInt64(p *int64, v int64) int64     { ctl.LPoint(); return stdatomic.SwapInt64(p, v) }
func SwapUint32(p *uint32, v uint32) uint32 { ctl.LPoint(); return stdatomic.SwapUint32(p, v) }
func SwapUint64(p *uint64, v uint64) uint64 { ctl.LPoint(); return stdatomic.SwapUint64(p, v) }
func SwapPointer(p *unsafe.Pointer, v unsafe.Pointer) unsafe.Pointer {
	ctl.LPoint()
	return stdatomic.SwapPointer(p, v)
}

func CompareAndSwapInt32(p *int32, o, n int32) bool {
	ctl.LPoint()
	return stdatomic.CompareAndSwapInt32(p, o, n)
}
func CompareAndSwapInt64(p *int64, o, n int64) bool {
	ctl.LPoint()
	return stdatomic.CompareAndSwapInt64(p, o, n)
}
func CompareAndSwapUint32(p *uint32, o, n uint32) bool {
	ctl.LPoint()
	return stdatomic.CompareAndSwapUint32(p, o, n)
}
func CompareAndSwapUint64(p *uint64, o, n uint64) bool {
	ctl.LPoint()
	return stdatomic.CompareAndSwapUint64(p, o, n)
}
func CompareAndSwapPointer(p *unsafe.Pointer, o, n unsafe.Pointer) bool {
	ctl.LPoint()
	return stdatomic.CompareAndSwapPointer(p, o, n)
}

type Int32 struct{ v int32 }

func (x *Int32) Load() int32                    { return LoadInt32(&x.v) }
func (x *Int32) Store(v int32)                  { StoreInt32(&x.v, v) }
func (x *Int32) Add(d int32) int32              { return AddInt32(&x.v, d) }
func (x *Int32) Swap(v int32) int32             { return SwapInt32(&x.v, v) }
func (x *Int32) CompareAndSwap(o, n int32) bool { return CompareAndSwapInt32(&x.v, o, n) }

type Int64 struct{ v int64 }

func (x *Int64) Load() int64                    { return LoadInt64(&x.v) }
func (x *Int64) Store(v int64)                  { StoreInt64(&x.v, v) }
func (x *Int64) Add(d int64) int64              { return AddInt64(&x.v, d) }
func (x *Int64) Swap(v int64) int64             { return SwapInt64(&x.v, v) }
func (x *Int64) CompareAndSwap(o, n int64) bool { return CompareAndSwapInt64(&x.v, o, n) }

type Uint32 struct{ v uint32 }

func (x *Uint32) Load() uint32                    { return LoadUint32(&x.v) }
func (x *Uint32) Store(v uint32)                  { StoreUint32(&x.v, v) }
func (x *Uint32) Add(d uint32) uint32             { return AddUint32(&x.v, d) }
func (x *Uint32) Swap(v uint32) uint32            { return SwapUint32(&x.v, v) }
func (x *Uint32) CompareAndSwap(o, n uint32) bool { return CompareAndSwapUint32(&x.v, o, n) }

type Uint64 struct{ v uint64 }

func (x *Uint64) Load() uint64                    { return LoadUint64(&x.v) }
func (x *Uint64) Store(v uint64)                  { StoreUint64(&x.v, v) }
func (x *Uint64) Add(d uint64) uint64             { return AddUint64(&x.v, d) }
func (x *Uint64) Swap(v uint64) uint64            { return SwapUint64(&x.v, v) }
func (x *Uint64) CompareAndSwap(o, n uint64) bool { return CompareAndSwapUint64(&x.v, o, n) }

type Bool struct{ v uint32 }

func b32(b bool) uint32 {
	if b {
		return 1
	}
	return 0
}
func (x *Bool) Load() bool                    { return LoadUint32(&x.v) != 0 }
func (x *Bool) Store(v bool)                  { StoreUint32(&x.v, b32(v)) }
func (x *Bool) Swap(v bool) bool              { return SwapUint32(&x.v, b32(v)) != 0 }
func (x *Bool) CompareAndSwap(o, n bool) bool { return CompareAndSwapUint32(&x.v, b32(o), b32(n)) }

type Pointer[T any] struct{ p stdatomic.Pointer[T] }

func (x *Pointer[T]) Load() *T                    { ctl.LPoint(); return x.p.Load() }
func (x *Pointer[T]) Store(v *T)                  { ctl.LPoint(); x.p.Store(v) }
func (x *Pointer[T]) Swap(v *T) *T                { ctl.LPoint(); return x.p.Swap(v) }
func (x *Pointer[T]) CompareAndSwap(o, n *T) bool { ctl.LPoint(); return x.p.CompareAndSwap(o, n) }

type Value struct{ v stdatomic.Value }

func (x *Value) Load() any                    { ctl.LPoint(); return x.v.Load() }
func (x *Value) Store(v any)                  { ctl.LPoint(); x.v.Store(v) }
func (x *Value) Swap(v any) any               { ctl.LPoint(); return x.v.Swap(v) }
func (x *Value) CompareAndSwap(o, n any) bool { ctl.LPoint(); return x.v.CompareAndSwap(o, n) }
