// Package ctl (import path github.com/samber/ro/internal/verifrt/ctl) is the cooperative
// scheduler used ONLY by native replays of counterexamples found by the symbolic engine.
// Controlled goroutines (the harness thread, vGo threads, and — when the library is compiled
// against the sync/atomic shims — goroutines started by the library) run one at a time; the
// baton is handed over at the points and in the order the engine recorded ("switch list").
// With no switch list the controller is inactive and every call is a no-op.
package ctl

import (
	"fmt"
	"os"
	"path/filepath"
	"runtime"
	"strings"
	"sync"
	"time"
)

// Switch is one recorded hand-over: thread From, having passed H harness-level and L
// library-level points, gives the baton to thread To because of Reason
// (go, yield, quiesce, lpreempt, block, end; cpreempt = not replayable).
type Switch struct {
	From   int    `json:"from"`
	H      int    `json:"h"`
	L      int    `json:"l"`
	Reason string `json:"reason"`
	To     int    `json:"to"`
}

type Thread struct {
	ID     int
	resume chan struct{}
	h, l   int
	done   bool
	lib    bool // started by the library (a rewritten go statement, a timer callback)
	gen    int  // the replayed case this thread belongs to
}

var (
	mu      sync.Mutex
	active  bool
	thr     []*Thread
	byG     map[uint64]*Thread
	cur     int
	sw      []Switch
	pos     int
	lastAct time.Time
	stopWD  chan struct{}
	libMode bool // library goroutines are controlled too (sync shim compiled in)
)

func goID() uint64 {
	var buf [64]byte
	n := runtime.Stack(buf[:], false)
	var id uint64
	for _, c := range buf[10:n] {
		if c < '0' || c > '9' {
			break
		}
		id = id*10 + uint64(c-'0')
	}
	return id
}

// Start installs a switch list and registers the calling goroutine as thread 0.
func Start(list []Switch, lib bool) {
	mu.Lock()
	defer mu.Unlock()
	gen++
	sw = list
	pos = 0
	thr = nil
	byG = map[uint64]*Thread{}
	cur = 0
	libMode = lib
	active = len(list) > 0
	lastAct = time.Now()
	t0 := &Thread{ID: 0, resume: make(chan struct{}, 1), gen: gen}
	thr = append(thr, t0)
	byG[goID()] = t0
	if stopWD != nil {
		close(stopWD)
		stopWD = nil
	}
	if active {
		stopWD = make(chan struct{})
		go watchdog(stopWD)
	}
}

// Stop deactivates the controller (end of a replayed case).
func Stop() {
	mu.Lock()
	defer mu.Unlock()
	gen++ // threads of the finished case that are still parked exit when woken (see stale)
	active = false
	if stopWD != nil {
		close(stopWD)
		stopWD = nil
	}
	for _, t := range thr {
		select {
		case t.resume <- struct{}{}:
		default:
		}
	}
}

func Active() bool {
	mu.Lock()
	defer mu.Unlock()
	return active
}

func LibMode() bool {
	mu.Lock()
	defer mu.Unlock()
	return active && libMode
}

func self() *Thread {
	mu.Lock()
	defer mu.Unlock()
	if !active {
		return nil
	}
	return byG[goID()]
}

// ThreadID returns the logical id of the calling goroutine (0 = harness, -1 = uncontrolled).
func ThreadID() int {
	mu.Lock()
	defer mu.Unlock()
	if byG == nil {
		return 0
	}
	if t := byG[goID()]; t != nil {
		return t.ID
	}
	return -1
}

func head() *Switch {
	for pos < len(sw) {
		s := &sw[pos]
		if s.Reason == "cpreempt" {
			pos++ // cannot be placed natively
			continue
		}
		return s
	}
	return nil
}

func signal(to int) {
	if to >= 0 && to < len(thr) && !thr[to].done {
		select {
		case thr[to].resume <- struct{}{}:
		default:
		}
	}
}

func handover(from *Thread, to int, wait bool) {
	if from != nil {
		select {
		case <-from.resume: // stale token
		default:
		}
	}
	mu.Lock()
	cur = to
	lastAct = time.Now()
	signal(to)
	mu.Unlock()
	if wait && from != nil {
		select {
		case <-from.resume:
		case <-time.After(3 * time.Second):
		}
		stale(from)
	}
}

// gen counts the cases replayed in this process.  A controlled thread that wakes up after its case
// has ended must not go on executing harness code: it would write into the state of the next case.
var gen int

func stale(t *Thread) {
	mu.Lock()
	old := t.gen != gen
	mu.Unlock()
	if old {
		runtime.Goexit()
	}
}

// HPoint is a harness-level scheduling point (vGo, vYield, vQuiesce).
func HPoint(reason string) {
	t := self()
	if t == nil {
		return
	}
	mu.Lock()
	t.h++
	lastAct = time.Now()
	s := head()
	ok := s != nil && s.From == t.ID && s.H == t.h && (s.Reason == reason || (reason == "yield" && s.Reason == "lpreempt" && s.L == t.l))
	if !ok {
		mu.Unlock()
		return
	}
	pos++
	to := s.To
	mu.Unlock()
	handover(t, to, true)
}

// LPoint is a library-level scheduling point (a shimmed sync / atomic operation).
var traceL = os.Getenv("VERIF_CTL_TRACE") == "1"

func LPoint() {
	t := self()
	if t == nil {
		return
	}
	mu.Lock()
	t.l++
	lastAct = time.Now()
	if traceL {
		// development aid (VERIF_CTL_TRACE=1): where each counted point of each thread is
		for d := 2; d < 8; d++ {
			_, file, line, ok := runtime.Caller(d)
			if !ok {
				break
			}
			if !strings.Contains(file, "/verifrt/") && !strings.Contains(file, "/sync/") {
				fmt.Fprintf(os.Stderr, "CTL-L thread=%d h=%d l=%d %s:%d\n", t.ID, t.h, t.l, filepath.Base(file), line)
				break
			}
		}
	}
	s := head()
	if s == nil || s.From != t.ID || s.Reason != "lpreempt" || s.H != t.h || s.L != t.l {
		mu.Unlock()
		return
	}
	pos++
	to := s.To
	mu.Unlock()
	handover(t, to, true)
}

// Blocked is called by a shimmed operation that cannot proceed: the baton goes to the thread the
// engine recorded; the call returns when this thread is scheduled again (then the caller retries).
func Blocked() {
	t := self()
	if t == nil {
		runtime.Gosched()
		time.Sleep(50 * time.Microsecond)
		return
	}
	mu.Lock()
	s := head()
	if s == nil || s.From != t.ID || s.Reason != "block" {
		mu.Unlock()
		// not what the engine saw: let the others run for a moment and retry
		runtime.Gosched()
		time.Sleep(200 * time.Microsecond)
		return
	}
	pos++
	to := s.To
	mu.Unlock()
	handover(t, to, true)
}

// Go starts f as a new controlled thread (ids follow creation order, as in the engine).
func Go(f func()) { goThread(f, false) }

func goThread(f func(), lib bool) {
	mu.Lock()
	if !active {
		mu.Unlock()
		go f()
		return
	}
	t := &Thread{ID: len(thr), resume: make(chan struct{}, 1), lib: lib, gen: gen}
	thr = append(thr, t)
	mu.Unlock()
	started := make(chan struct{})
	go func() {
		mu.Lock()
		byG[goID()] = t
		mu.Unlock()
		close(started)
		select {
		case <-t.resume:
		case <-time.After(3 * time.Second):
		}
		stale(t)
		defer func() {
			mu.Lock()
			t.done = true
			s := head()
			to := -1
			if active && s != nil && s.From == t.ID && s.Reason == "end" {
				pos++
				to = s.To
			}
			mu.Unlock()
			if to >= 0 {
				handover(nil, to, false)
			}
		}()
		f()
	}()
	<-started
}

// GoLib is what a `go` statement of the library becomes: a new controlled thread plus the
// library-level scheduling point the engine has at every `go`.
func GoLib(f func()) {
	goThread(f, true)
	LPoint()
}

// Live reports how many library-started controlled threads have not finished (the native
// counterpart of the engine's census; only meaningful when the library is compiled against the
// shims, 0 otherwise).
func Live() int {
	mu.Lock()
	defer mu.Unlock()
	n := 0
	if !active {
		return 0
	}
	for _, t := range thr {
		if t.lib && !t.done {
			n++
		}
	}
	return n
}

// GoTimer starts a timer callback as a library thread.
func GoTimer(f func()) { goThread(f, true) }

// Gosched is what runtime.Gosched() of the library becomes (the spin lock): the engine lets
// another thread run; natively the baton goes where the engine recorded.
func Gosched() {
	t := self()
	if t == nil {
		runtime.Gosched()
		return
	}
	mu.Lock()
	s := head()
	if s == nil || s.From != t.ID || s.Reason != "gosched" {
		mu.Unlock()
		runtime.Gosched()
		time.Sleep(100 * time.Microsecond)
		return
	}
	pos++
	to := s.To
	mu.Unlock()
	handover(t, to, true)
}

// watchdog: a baton holder blocked inside a real (unshimmed) operation cannot report it; when the
// recorded schedule says it blocks next and nothing has moved for a while, hand over on its behalf.
func watchdog(stop chan struct{}) {
	for {
		select {
		case <-stop:
			return
		case <-time.After(2 * time.Millisecond):
		}
		mu.Lock()
		s := head()
		if active && s != nil && s.Reason == "block" && s.From == cur && time.Since(lastAct) > 25*time.Millisecond {
			pos++
			cur = s.To
			lastAct = time.Now()
			signal(s.To)
		}
		mu.Unlock()
	}
}
