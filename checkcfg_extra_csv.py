# C18, csv plugin (plugins/encoding/csv: source and sink) over the contract stub shim/stubs/csv.
_CSV = dict(overlay="harness/csv", pkgdir="plugins/encoding/csv", pkgname="rocsv", stubs={"encoding/csv": "csv"})
QUICK = [J("^vhC18_csv_(source|sink)_n2$", samples=3, **_CSV)]
THOROUGH = [J("^vhC18_csv_(source|sink)_n3$", samples=3, **_CSV)]
