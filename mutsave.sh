#!/bin/bash
# mutsave.sh <id> <property> "<needs>" "<detected-by / status>"
id=$1; prop=$2; needs=$3; status=$4
d=/verif/seeded/$id; mkdir -p $d
cp /tmp/mut/$id.out/patch.diff $d/patch.diff
cp /tmp/mut/$id.out/zz_mut_demo_test.go $d/ 2>/dev/null || find /tmp/mut/$id -name zz_mut_demo_test.go -exec cp {} $d/ \;
cp /tmp/mut/$id.out/notes.md $d/notes.md 2>/dev/null
python3 - "$id" "$prop" "$needs" "$status" <<'PY'
import json,sys
id,prop,needs,status=sys.argv[1:5]
w=open('/tmp/mut/%s.with.log'%id).read().strip().splitlines()[-1:] if True else []
wo=open('/tmp/mut/%s.without.log'%id).read().strip().splitlines()[-1:]
json.dump({"id":id,"breaks_property":prop,"needs_to_manifest":needs,
 "confirmed":{"demo_with_change":w,"demo_without_change":wo,"suite":"root module suite passes with the change (apart from ExampleFuture_ok, which needs the network, and load-dependent sleep-based flakes that pass alone)"},
 "ran":["/verif/mutcheck.sh %s %s"%(id,prop)],"result":status},open('/verif/seeded/%s/meta.json'%id,'w'),indent=1)
PY
