# C18, gob plugin (plugins/encoding/gob) over the contract stub shim/stubs/gob.
_GOB = dict(overlay="harness/gob", pkgdir="plugins/encoding/gob", pkgname="rogob", stubs={"encoding/gob": "gob"})
QUICK = [J("^vhC18_gob_n2$", samples=3, **_GOB)]
THOROUGH = [J("^vhC18_gob_n3$", samples=3, **_GOB)]
