# Per-property job configuration for /verif/check.
# Each job: overlay dir (harness files), harness regexp, bounds.

CORE = "harness/core"

def J(harness, **kw):
    d = dict(overlay=CORE, pkgdir=".", pkgname="ro", harness=harness)
    d.update(kw)
    return d

PROPS = {
    "C04": {"quick": [J("^vhC04_ref_L3$", samples=8)], "thorough": [J("^vhC04_ref_L(3|4)$", samples=16)],
            "bounds": {"script_length_quick": 3, "script_length_thorough": 4}, "assumptions": []},
}
