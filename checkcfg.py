# Per-property job configuration for /verif/check.
# Each job: overlay dir (harness files), harness regexp, bounds.

CORE = "harness/core"

def J(harness, **kw):
    d = dict(overlay=CORE, pkgdir=".", pkgname="ro", harness=harness)
    d.update(kw)
    return d

PROM = dict(overlay="harness/prometheus", pkgdir="ee/plugins/prometheus", pkgname="roprometheus")

RLU = dict(overlay="harness/rlulule", pkgdir="plugins/ratelimit/ulule", pkgname="roratelimit", init="github.com/ulule/limiter/v3")
RLN = dict(overlay="harness/rlnative", pkgdir="plugins/ratelimit/native", pkgname="roratelimit", timeshim=True)

SORT = dict(overlay="harness/sort", pkgdir="plugins/sort", pkgname="rosort")
TPL = dict(overlay="harness/template", pkgdir="plugins/template", pkgname="rotemplate", stubs={"text/template": "template", "html/template": "template"})
TIMEP = dict(overlay="harness/time", pkgdir="plugins/time", pkgname="rotime", stubs={"time": "time"})
SCONV = dict(overlay="harness/strconv", pkgdir="plugins/strconv", pkgname="rostrconv", stubs={"strconv": "strconv"})
STDIO = dict(overlay="harness/stdio", pkgdir="plugins/stdio", pkgname="rostdio")

PROPS = {
    "C18": {"quick": [J("^vhC18_sort_n3$", samples=4, **SORT), J("^vhC18_(reader_c2|writer_n2)$", samples=4, **STDIO), J("^vhC18_template", samples=3, **TPL), J("^vhC18_(strconv|format)_n2$", samples=3, **SCONV), J("^vhC18_time_n2$", samples=3, **TIMEP)],
            "thorough": [J("^vhC18_sort_n3$", samples=8, **SORT), J("^vhC18_(reader_c3|writer_n3)$", samples=8, **STDIO), J("^vhC18_template", preempt=1, samples=3, maxpaths=1500000, **TPL), J("^vhC18_(strconv_n3|format_n2)$", samples=3, **SCONV), J("^vhC18_time_n3$", samples=3, **TIMEP)], "bounds": {"sort_items": 3, "chunk_bytes": 3},
            "assumptions": ["sort.Slice / sort.SliceStable are contract stubs: every permutation sorted w.r.t. less is explored (stable: ties keep their order)",
                            "partial claim: sort, stdio, template and strconv plugins (template, strconv, time, regexp, base64, json, gob and csv through library stubs whose results are uninterpreted functions of the arguments: the plumbing is checked — which function, which item, which parameters, fresh targets, no aliasing — not the real text/calendar/encoding behaviour of the wrapped library); the strings/bytes case helpers are not encoded (their results need concrete text)"]},
    "C20": {"quick": [J("^vhC20_ulule_L2$", samples=4, **RLU), J("^vhC20_native(slow)?_n2$|^vhC20_overlap_n2$", samples=2, **RLN), J("^vhC20_nativeconc_n2$", preempt=2, samples=2, maxpaths=600000, **RLN)],
            "thorough": [J("^vhC20_ulule_L3$", samples=8, **RLU), J("^vhC20_native(slow)?_n3$|^vhC20_overlap_n3$", samples=2, **RLN), J("^vhC20_nativeconc_n3$", preempt=2, samples=2, maxpaths=3000000, **RLN)], "bounds": {"keys": 2, "quota": "1..2", "bursts": 2},
            "assumptions": ["ulule: the third-party store is a harness-side per-key counter with a symbolic limit (single window) and an injectable error; the real limiter.Limiter.Get is executed",
                            "native: items of a burst arrive at one logical instant; a full window elapses between bursts; the quota bound for spans that straddle a window boundary is not asserted"]},
    "C19": {"quick": [J("^vhC19_(pipe|standalone|origin)_L2$", samples=4, **PROM), J("^vhC19_arity_L1$", samples=4, maxdepth=3000, maxsteps=2000000, **PROM)],
            "thorough": [J("^vhC19_(pipe|standalone|origin)_L3$", samples=8, **PROM), J("^vhC19_arity_L2$", samples=8, maxdepth=3000, maxsteps=2000000, **PROM)], "bounds": {}, "assumptions": ["prometheus client library replaced by counting stubs (Inc=+1, Observe=count+1, one child per vector); introspection.GetFunctionDescription replaced by a fixed description; licence = the package's own bypass flag"]},
    "C05": {"quick": [J("^vhC05_multi_T4$|^vhC05_windowreentrant_n2$|^vhC05_arity_s4$", samples=4), J("^vhC05_conc_v1$|^vhC05_conczip_v2$", preempt=0, samples=2, maxpaths=600000)],
            "thorough": [J("^vhC05_multi_T5$|^vhC05_windowreentrant_n3$|^vhC05_arity_s6$", samples=8, maxpaths=1000000), J("^vhC05_conc_v2$", preempt=0, samples=2, maxpaths=3000000), J("^vhC05_concsel_v1$", preempt=1, samples=2, maxpaths=3000000)], "bounds": {}, "assumptions": []},
    "C06": {"quick": [J("^vhC06_(inside_L2|wait_L1|collect_L2)$", preempt=1, samples=3), J("^vhC05_multi_T3$", samples=1, only_kinds=["deadlock"]), J("^vhC08_handoff_n2$", preempt=0, samples=1, only_msgs="still running after the terminal|not closed after the terminal")], "thorough": [J("^vhC06_(inside_L3|collect_L3)$", preempt=2, samples=4, maxpaths=1500000), J("^vhC06_wait_L2$", preempt=1, samples=2, maxpaths=1500000), J("^vhC06_wait_L1$", preempt=2, samples=2, maxpaths=1500000)], "bounds": {}, "assumptions": []},
    "C08": {"quick": [J("^vhC08_(sync_L2|handoff_n2)$", preempt=1, samples=3), J("^vhC08_handoff_n5$", preempt=0, samples=2), J("^vhC17_tochannel_L2$", preempt=1, samples=2, timeshim=True, only_msgs="closed before the terminal|out of order|values differ|more notifications"), J("^vhC09_cancel_L2$", samples=2, only_msgs="no Error although"), J("^vhC10_concsub_", preempt=1, samples=1, only_msgs="lost or duplicated|emission order")], "thorough": [J("^vhC08_(sync_L3|handoff_n3)$", preempt=2, samples=4), J("^vhC08_handoff_n5$", preempt=1, samples=2, maxpaths=2000000)], "bounds": {}, "assumptions": []},
    "C14": {"quick": [J("^vhC14_ctx_L1$", preempt=0, samples=3, timeshim=True), J("^vhC14_early_L2$|^vhC14_multi_L2$", samples=4), J("^vhC03_subconc_(2|3)$", preempt=2, samples=1), J("^vhC11_share_K4$", samples=2, only_msgs="upstream subscription does not follow|more than one live"), J("^vhC17_fromchannel_L2$", preempt=1, samples=2, timeshim=True)], "thorough": [J("^vhC14_ctx_L2$", preempt=1, samples=3, timeshim=True), J("^vhC14_early_L3$|^vhC14_multi_L2$", preempt=1, samples=6, maxpaths=1500000), J("^vhC03_subconc_(2|3)$", preempt=3, samples=1)], "bounds": {}, "assumptions": []},
    "C17": {"quick": [J("^vhC17_.*_L2$", preempt=1, samples=3, timeshim=True), J("^vhC12_reuse2_L2$", samples=2, only_msgs="^ToMap|^ToSlice|^Materialize|^Dematerialize"), J("^vhC04_nilerr_L2$", samples=2, only_msgs="^ToMap|^ToSlice|^Materialize|^Dematerialize"), J("^vhC14_early_L2$", samples=2, only_msgs="^ToMap|^ToSlice|^Materialize|^Dematerialize")], "thorough": [J("^vhC17_.*_L3$", preempt=1, samples=4, timeshim=True, maxpaths=2000000)], "bounds": {}, "assumptions": []},
    "C02": {"quick": [J("^vhC02_core_(2x2|3x1)$|^vhC02_chainunsafe_n1$", preempt=0, samples=2), J("^vhC02_core_2x2$", preempt=1, samples=3, maxpaths=600000),
                      J("^vhC10_conc(via)?_|^vhC05_conc_v1$", preempt=0, samples=1, only_msgs="overlapped", maxpaths=600000),
                      J("^vhC13_time_n1$|^vhC02_ctx_n1$", preempt=1, samples=2, timeshim=True, only_msgs="overlapped|grammar|after a terminal|never emitted")],
            "thorough": [J("^vhC02_chainunsafe_n2$", preempt=1, samples=2, maxpaths=1000000), J("^vhC02_core_2x2$", preempt=2, samples=6, maxpaths=4000000), J("^vhC02_core_3x1$", preempt=1, samples=3, maxpaths=2000000), J("^vhC10_conc(via)?_", preempt=1, samples=1, only_msgs="overlapped", maxpaths=3000000), J("^vhC05_conczip_v2$|^vhC05_conc_v1$", preempt=0, samples=1, only_msgs="overlapped", maxpaths=3000000),
                         J("^vhC13_time_n2$|^vhC02_ctx_n2$", preempt=1, samples=2, timeshim=True, only_msgs="overlapped|grammar|after a terminal|never emitted", maxpaths=1500000), J("^vhC13_time_n1$|^vhC02_ctx_n1$", preempt=2, samples=2, timeshim=True, only_msgs="overlapped|grammar|after a terminal|never emitted", maxpaths=1500000)], "bounds": {"threads": 3, "preemptions_quick": 1, "preemptions_thorough": 2}, "assumptions": []},
    "C03": {"quick": [J("^vhC03_(sub_K3|cut_L2)$|^vhC03_multipanic$", samples=4), J("^vhC03_subconc_(2|3)$", preempt=0, samples=1), J("^vhC03_subconc_(2|3)$", preempt=2, samples=1), J("^vhC11_(share|conn)_K4$", samples=2, only_msgs="upstream subscription|source subscription"), J("^vhC12_overlap_L1$", samples=2, only_msgs="upstream subscription")], "thorough": [J("^vhC03_(sub_K4|cut_L3)$|^vhC03_multipanic$", samples=8), J("^vhC03_subconc_(2|3)$", preempt=0, samples=1), J("^vhC03_subconc_(2|3)$", preempt=3, samples=1), J("^vhC11_(share|conn)_K5$", samples=2, only_msgs="upstream subscription|source subscription"), J("^vhC12_overlap_L2$", samples=2, only_msgs="upstream subscription", maxpaths=1000000)], "bounds": {}, "assumptions": []},
    "C07": {"quick": [J("^vhC07_.*_L2$", samples=4), J("^vhC08_handoff_n(2|5)$", preempt=0, samples=1, only_msgs="lost or duplicated|terminal notification"), J("^vhC02_core_(2x2|3x1)$", preempt=0, samples=1, only_msgs="terminal notification was emitted"), J("^vhC05_multi_T3$", samples=1, only_msgs="differs from the reference|no thread can run|blocked at|livelock")], "thorough": [J("^vhC07_.*_L3$", samples=8), J("^vhC08_handoff_n(3|5)$", preempt=1, samples=1, only_msgs="lost or duplicated|terminal notification", maxpaths=2000000)], "bounds": {}, "assumptions": []},
    "C09": {"quick": [J("^vhC09_.*_L2$|^vhC09_multi_T2$", samples=4), J("^vhC09_async_n2$", samples=3, timeshim=True), J("^vhC11_share_K4$", samples=2, only_msgs="context other than"), J("^vhC09_cancel_L2$", samples=2), J("^vhC07_core_L2$", samples=2, only_msgs="context"), J("^vhC09_float$", samples=2, tags="math_big_pure_go", init="math,math/big,math/bits,strconv")], "thorough": [J("^vhC09_.*_L3$|^vhC09_multi_T3$", samples=8), J("^vhC09_async_n3$", preempt=0, samples=3, timeshim=True), J("^vhC09_async_n2$", preempt=2, samples=3, timeshim=True, maxpaths=1500000), J("^vhC11_share_K5$", samples=2, only_msgs="context other than"), J("^vhC09_cancel_L3$", samples=2), J("^vhC07_core_L3$", samples=2, only_msgs="context"), J("^vhC09_float$", samples=2, tags="math_big_pure_go", init="math,math/big,math/bits,strconv")], "bounds": {}, "assumptions": []},
    "C12": {"quick": [J("^vhC12_(reuse|reuse2|opvalue|conc)_L2$|^vhC12_multi_T2$|^vhC12_overlap_L1$", samples=4), J("^vhC16_overlap_2$|^vhC12_ctxtimeout$", samples=2, timeshim=True)], "thorough": [J("^vhC12_(reuse|reuse2|opvalue)_L3$|^vhC12_multi_T3$", samples=8, maxpaths=2000000), J("^vhC12_conc_L2$|^vhC12_overlap_L2$", samples=4, maxpaths=1000000)], "bounds": {}, "assumptions": []},
    "C01": {"quick": [J("^vhC01_.*_L3$", samples=6), J("^vhC04_chain_L2$", samples=2, only_msgs="after a terminal"), J("^vhC02_core_3x1$", preempt=0, samples=2), J("^vhC05_conc_v1$", preempt=0, samples=1, only_msgs="after a terminal"), J("^vhC10_conc_", preempt=0, samples=1, only_msgs="after a terminal"), J("^vhC02_ctx_n1$", preempt=1, samples=1, only_msgs="after a terminal|grammar")], "thorough": [J("^vhC01_.*_L4$", samples=12), J("^vhC02_core_3x1$", preempt=0, samples=2), J("^vhC02_core_2x2$", preempt=1, samples=2, maxpaths=1500000), J("^vhC05_conc_v1$", preempt=0, samples=1, only_msgs="after a terminal", maxpaths=1500000), J("^vhC10_conc_", preempt=1, samples=1, only_msgs="after a terminal", maxpaths=1500000)],
            "bounds": {"script_length_quick": 3, "script_length_thorough": 4}, "assumptions": []},
    "C11": {"quick": [J("^vhC11_.*_K4$|^vhC11_pipeshare_2$|^vhC11_sharereplay_3$", samples=4), J("^vhC11_conc_2$", preempt=0, samples=2), J("^vhC11_conc_2$", preempt=1, samples=2), J("^vhC10_conc_(publish|behavior|replay)$", preempt=0, samples=1, only_msgs="linearization"), J("^vhC10_seq_(publish|behavior|replay)_K4$", samples=1)], "thorough": [J("^vhC11_.*_K5$|^vhC11_pipeshare_2$|^vhC11_sharereplay_3$", samples=8), J("^vhC11_conc_2$", preempt=0, samples=2), J("^vhC11_conc_2$", preempt=2, samples=2), J("^vhC10_conc_(publish|behavior|replay)$", preempt=1, samples=1, only_msgs="linearization", maxpaths=1500000)], "bounds": {}, "assumptions": []},
    "C13": {"quick": [J("^vhC02_core_2x2$|^vhC06_wait_L1$|^vhC08_handoff_n2$", preempt=1, races=True, only_kinds=["race", "crash"], samples=2, maxpaths=600000),
                      J("^vhC17_(tochannel|fromchannel)_L2$|^vhC13_time_n1$", preempt=1, races=True, only_kinds=["race", "crash"], samples=2, maxpaths=600000, timeshim=True),
                      J("^vhC10_conc_|^vhC05_conc_v1$", preempt=0, races=True, only_kinds=["race", "crash"], samples=1, maxpaths=600000)],
            "thorough": [J("^vhC02_core_(2x2|3x1)$|^vhC06_wait_L2$", preempt=1, races=True, only_kinds=["race", "crash"], samples=2, maxpaths=2000000), J("^vhC08_handoff_n3$|^vhC06_wait_L1$", preempt=2, races=True, only_kinds=["race", "crash"], samples=2, maxpaths=2000000),
                         J("^vhC17_(tochannel|fromchannel)_L2$|^vhC13_time_n1$", preempt=2, races=True, only_kinds=["race", "crash"], samples=2, maxpaths=2000000, timeshim=True), J("^vhC13_time_n2$", preempt=1, races=True, only_kinds=["race", "crash"], samples=2, maxpaths=1500000, timeshim=True),
                         J("^vhC10_conc_|^vhC11_conc|^vhC05_concsel_v1$", preempt=1, races=True, only_kinds=["race", "crash"], samples=1, maxpaths=3000000), J("^vhC05_conczip_v2$|^vhC05_conc_v1$", preempt=0, races=True, only_kinds=["race", "crash"], samples=1, maxpaths=3000000)], "bounds": {}, "assumptions": []},
    "C15": {"quick": [J("^vhC15_(retry|repeat|loop|chain)_A2$", samples=4), J("^vhC15_.*async_A2$", preempt=1, samples=2, maxpaths=600000)], "thorough": [J("^vhC15_(retry|repeat|loop|chain)_A(2|3)$", samples=8), J("^vhC15_.*async_A2$", preempt=2, samples=2, maxpaths=3000000)], "bounds": {}, "assumptions": []},
    "C16": {"quick": [J("^vhC16_.*2$", samples=2, timeshim=True), J("^vhC14_ctx_L1$", samples=2, timeshim=True, only_msgs="long after the subscription context"), J("^vhC05_multi_T4$", samples=1, only_msgs="^ThrottleWhen|^SampleWhen|^BufferWhen")], "thorough": [J("^vhC16_(timeout|throttle)_n3$|^vhC16_(sample|delay)_n2$", samples=2, timeshim=True, solver_timeout_ms=60000, solver="z3-new"), J("^vhC16_interval_c2$|^vhC16_overlap_2$|^vhC16_delayctx_2$", samples=2, timeshim=True, xcheck="z3-new", xrate=5)], "bounds": {}, "assumptions": []},
    "C10": {"quick": [J("^vhC10_seq_.*_K4$", samples=3), J("^vhC10_conc(via)?_", preempt=0, samples=1), J("^vhC10_conc_(behavior|unicast|async)|^vhC10_concsub_", preempt=1, samples=1)], "thorough": [J("^vhC10_seq_.*_K5$", samples=6), J("^vhC10_conc(via)?_", preempt=0, samples=1), J("^vhC10_conc_|^vhC10_concsub_", preempt=2, samples=1, maxpaths=3000000)],
            "bounds": {"ops_quick": 4, "ops_thorough": 5, "subscribers": 3}, "assumptions": []},
    "C04": {"quick": [J("^vhC04_(ref_L5|variants_L2|blocking_L2|chain_L2|pipe_L2|nilerr_L2|average)$", samples=8), J("^vhC12_overlap_L2$", samples=2, only_msgs="of two overlapping subscriptions"), J("^vhC05_arity_s4$", samples=2), J("^vhC05_multi_T4$", samples=1, only_msgs="^WindowWhen|^BufferWhen|^SampleWhen|^ThrottleWhen")], "thorough": [J("^vhC04_(ref_L6|variants_L3|blocking_L3|chain_L3|pipe_L3|nilerr_L3|average)$", samples=16, xcheck="z3-new", xrate=50)],
            "bounds": {"script_length_quick": 5, "script_length_thorough": 6}, "assumptions": []},
}

# Per-property claim texts for MANIFEST.json (defaults apply where absent).
TEXT = {
    "C13": {"text": "happens-before (vector clock) race detection over every explored schedule (<= P preemptions) of the concurrent scenarios of C02/C05/C06/C08/C10/C11/C17, of the time-driven operators with a producer thread racing the clock, and of the float precision operators on their math/big path; a race between two accesses unordered on some explored schedule is reported even if that schedule did not make them adjacent; replay through go test -race",
            "technique": "symbolic execution of go/ssa with explicit threads, vector-clock happens-before tracking, preemption-bounded schedule enumeration"},
    "C16": {"note": "time is a symbolic logical clock (durations in (0,2^40] ns, gaps symbolic); native replay of time-dependent counterexamples requires the virtual-time shim; stubs as listed in the evidence"},
}

# Properties not claimed, with the reason.
NOT_APPLICABLE = {
}

# Additional C18 plugin jobs, one file per plugin family (checkcfg_extra_<name>.py), each defining
# QUICK and THOROUGH lists of jobs built with J(...); kept apart so that they can be written and tried
# independently.
import glob as _glob, os as _os
for _f in sorted(_glob.glob(_os.path.join(_os.path.dirname(_os.path.abspath(__file__)), "checkcfg_extra_*.py"))):
    _ns = {"J": J}
    exec(open(_f).read(), _ns)
    PROPS[_ns.get("PROPERTY", "C18")]["quick"] += _ns.get("QUICK", [])
    PROPS[_ns.get("PROPERTY", "C18")]["thorough"] += _ns.get("THOROUGH", [])
