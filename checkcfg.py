# Per-property job configuration for /verif/check.
# Each job: overlay dir (harness files), harness regexp, bounds.

CORE = "harness/core"

def J(harness, **kw):
    d = dict(overlay=CORE, pkgdir=".", pkgname="ro", harness=harness)
    d.update(kw)
    return d

PROPS = {
    "T0": {"quick": [J("^vhT0_")], "bounds": {}, "assumptions": []},
}
